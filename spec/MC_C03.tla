------------------------------- MODULE MC_C03 -------------------------------
(***************************************************************************)
(* C03: assignment writes exactly the addressed cells.                     *)
(* Families: "forms" (all index forms x rhs shapes x inplace), "dtypes"    *)
(* (array kind x assigned kind x cast), "mask" (N-d boolean masks),        *)
(* "values" (a.values = v).                                                *)
(***************************************************************************)
EXTENDS Arrays, Json

CONSTANTS U, Full2D, Emit, PtLens       \* PtLens: numbers of points of the pointwise family
VARIABLES in, out, ph
vars == <<in, out, ph>>

U2Set == {<<4, 2>>, <<2, 6, 4>>}
DimNames == <<"x", "y", "z">>
InjSeqs(S, n) == {s \in [1..n -> S] : \A i, j \in 1..n : i # j => s[i] # s[j]}
LabSeqs1 == UNION {InjSeqs(U, n) : n \in 1..Cardinality(U)}
RECURSIVE LabTuples(_)
LabTuples(nd) == IF nd = 0 THEN {<<>>}
                 ELSE IF nd = 1 THEN {<<s>> : s \in LabSeqs1}
                 ELSE {t \o <<s>> : t \in LabTuples(nd - 1), s \in U2Set}
FormArrays == LabTuples(1) \cup (IF Full2D THEN LabTuples(2) ELSE {<<<<4, 2, 6>>, <<4, 2>>>>, <<<<2, 4>>, <<2, 6, 4>>>>})
Masks(n) == [1..n -> BOOLEAN]
Kinds == {"b", "i", "f", "O"}

LabelMenu(L) ==
  {IxAll, IxSc(L[1]), IxSc(L[Len(L)]), IxSc(L[1] + 1)}
  \cup {IxLi(<<>>), IxLi(<<L[Len(L)]>>), IxLi(Rev(L)), IxLi(<<L[1], L[1]>>), IxLi(<<L[1], L[1] + 1>>)}
  \cup {IxMk(m) : m \in Masks(Len(L))}
  \cup {IxSl(<<L[1]>>, <<L[Len(L)]>>, <<>>), IxSl(<<>>, <<L[1]>>, <<>>), IxSl(<<>>, <<>>, <<-1>>)}
PosMenu(n) ==
  {IxAll, IxSc(0), IxSc(-1), IxSc(n)}
  \cup {IxLi(<<>>), IxLi(<<n - 1>>), IxLi([i \in 1..n |-> n - i]), IxLi(<<0, 0>>), IxLi(<<-1>>)}
  \cup {IxMk(m) : m \in Masks(n)}
  \cup {IxSl(<<1>>, <<>>, <<>>), IxSl(<<>>, <<-1>>, <<>>), IxSl(<<>>, <<>>, <<-1>>)}
LabelMenuR(L) == {IxAll, IxSc(L[Len(L)]), IxLi(Rev(L)), IxMk([i \in 1..Len(L) |-> i # 1]), IxSl(<<L[1]>>, <<L[Len(L)]>>, <<>>)}
PosMenuR(n) == {IxAll, IxSc(-1), IxLi([i \in 1..n |-> n - i]), IxMk([i \in 1..n |-> i # 1]), IxSl(<<>>, <<>>, <<-1>>)}
RECURSIVE IdxTuplesR(_, _)
IdxTuplesR(labs, mode) ==
  IF labs = <<>> THEN {<<>>}
  ELSE {<<ix>> \o t : ix \in (IF mode = "label" THEN LabelMenuR(Head(labs)) ELSE PosMenuR(Len(Head(labs)))),
                      t \in IdxTuplesR(Tail(labs), mode)}
RECURSIVE IdxTuples(_, _)
IdxTuples(labs, mode) ==
  IF labs = <<>> THEN {<<>>}
  ELSE {<<ix>> \o t : ix \in (IF mode = "label" THEN LabelMenu(Head(labs)) ELSE PosMenu(Len(Head(labs)))),
                      t \in IdxTuples(Tail(labs), mode)}

\* pointwise family: per dimension a list / mask with exactly n entries, a scalar, or a full slice
TruesOf(m) == Cardinality({i \in DOMAIN m : m[i]})
PtMenuLabel(L, n) ==
  {IxAll, IxSc(L[1]), IxSc(L[Len(L)])}
  \cup {IxLi(s) : s \in InjSeqs(Range(L), n)} \cup {IxLi([i \in 1..n |-> L[Len(L)]]), IxLi([i \in 1..n |-> L[1] + 1])}
  \cup {IxMk(m) : m \in {mm \in Masks(Len(L)) : TruesOf(mm) = n}}
PtMenuPos(len, n) ==
  {IxAll, IxSc(0), IxSc(-1)}
  \cup {IxLi(s) : s \in InjSeqs(0..(len - 1), n)} \cup {IxLi([i \in 1..n |-> -1]), IxLi([i \in 1..n |-> len])}
  \cup {IxMk(m) : m \in {mm \in Masks(len) : TruesOf(mm) = n}}
RECURSIVE PtTuples(_, _, _)
PtTuples(labs, mode, n) ==
  IF labs = <<>> THEN {<<>>}
  ELSE {<<ix>> \o t : ix \in (IF mode = "label" THEN PtMenuLabel(Head(labs), n) ELSE PtMenuPos(Len(Head(labs)), n)),
                      t \in PtTuples(Tail(labs), mode, n)}
MkArr(labs, dt) == Fresh(SubSeq(DimNames, 1, Len(labs)), [i \in 1..Len(labs) |-> "i"], labs,
                         [i \in 1..Len(labs) |-> i], dt, 7, 100)
NoRhs == [shape |-> <<>>, cells |-> <<>>, kind |-> ""]
NoIn == [fam |-> "", a |-> <<>>, idxs |-> <<>>, mode |-> "", tol |-> <<>>, rhs |-> NoRhs, mask |-> <<>>,
         inplace |-> TRUE, cast |-> FALSE]
MkRhs(shape, kind) == [shape |-> shape, cells |-> [k \in 1..Prod(shape) |-> 900 + k], kind |-> kind]

Init == in = NoIn /\ out = <<>> /\ ph = 0

ChooseArray ==
  /\ ph = 0 /\ ph' = 1 /\ out' = out
  /\ \/ \E labs \in FormArrays : \E mode \in {"label", "position"} :
          in' = [NoIn EXCEPT !.fam = "forms", !.a = MkArr(labs, "f"), !.mode = mode]
     \/ \E mode \in {"label", "position"} :
          in' = [NoIn EXCEPT !.fam = "forms3", !.a = MkArr(<< <<4, 2>>, <<2, 6, 4>>, <<6, 2>> >>, "f"), !.mode = mode]
     \/ \E labs \in {<<<<4, 2, 6>>>>, <<<<2, 4>>, <<6, 2, 4>>>>} : \E dt \in Kinds :
          in' = [NoIn EXCEPT !.fam = "dtypes", !.a = MkArr(labs, dt), !.mode = "label"]
     \/ \E labs \in {<<<<4, 2>>, <<2, 6>>>>, <<<<2, 4>>, <<6, 2, 4>>>>, <<<<2>>, <<4, 2>>, <<2, 6>>>>} : \E dt \in {"f", "i"} :
          in' = [NoIn EXCEPT !.fam = "mask", !.a = MkArr(labs, dt), !.mode = "label"]
     \/ \E labs \in {<<<<4, 2, 6>>, <<2, 6, 4>>>>, <<<<4, 2>>, <<2, 6, 4>>, <<6, 2>>>>} : \E dt \in {"f", "i"} : \E mode \in {"label", "position"} :
          in' = [NoIn EXCEPT !.fam = "points", !.a = MkArr(labs, dt), !.mode = mode]
     \/ \E labs \in {<<<<4, 2, 6>>>>, <<<<2, 4>>, <<6, 2, 4>>>>} : \E dt \in Kinds :
          in' = [NoIn EXCEPT !.fam = "values", !.a = MkArr(labs, dt), !.mode = "label"]

ChooseIndex ==
  /\ ph = 1 /\ ph' = 2 /\ out' = out
  /\ CASE in.fam = "forms"  -> \E idxs \in IdxTuples(in.a.labs, in.mode) : in' = [in EXCEPT !.idxs = idxs]
       [] in.fam = "forms3" -> \E idxs \in IdxTuplesR(in.a.labs, in.mode) : in' = [in EXCEPT !.idxs = idxs, !.fam = "forms"]
       [] in.fam = "dtypes" -> LET L == in.a.labs[1] IN
                               \E ix \in {IxSc(L[1]), IxLi(<<L[Len(L)], L[1]>>), IxSl(<<>>, <<>>, <<>>), IxMk([i \in 1..Len(L) |-> i = 1]), IxLi(<<>>)} :
                                  in' = [in EXCEPT !.idxs = <<ix>> \o [i \in 1..(NDim(in.a) - 1) |-> IxAll]]
       [] in.fam = "mask"   -> \E m \in [1..Prod(Shape(in.a)) -> BOOLEAN] : in' = [in EXCEPT !.mask = m]
       [] in.fam = "values" -> in' = [in EXCEPT !.idxs = [i \in 1..NDim(in.a) |-> IxAll]]
       [] in.fam = "points" -> \E n \in PtLens : \E idxs \in PtTuples(in.a.labs, in.mode, n) :
                                  \* at least two paired dimensions (one list alone is the orthogonal case), 3-d arrays only with n = 2
                                  /\ \/ Cardinality({i \in 1..Len(idxs) : idxs[i].k \in {"li", "mk"}}) >= 2
                                     \/ /\ Cardinality({i \in 1..Len(idxs) : idxs[i].k \in {"li", "mk"}}) = 1     \* one list + scalars: placement rule of the read
                                        /\ \E i \in 1..Len(idxs) : idxs[i].k = "sc"
                                  /\ (NDim(in.a) = 3 => n = 2)
                                  /\ in' = [in EXCEPT !.idxs = idxs]

\* shape of the selection (dropped dimensions removed), <<>> when the index does not resolve
SelShape ==
  LET r == ResolveIndex(in.a, in.idxs, in.mode, in.tol)
      kept == SelectSeq(Idx(in.a.dims), LAMBDA i : ~r[i].drop)
  IN IF \E i \in 1..Len(r) : ~r[i].ok THEN <<>> ELSE [j \in 1..Len(kept) |-> Len(r[kept[j]].pos)]
HasRepeat == \E i \in 1..Len(in.idxs) : in.idxs[i].k = "li" /\ ~NoDup(in.idxs[i].l)
RhsShapes(S) == {<<>>} \cup (IF HasRepeat THEN {} ELSE
                  {S} \cup (IF Len(S) >= 2 THEN {<<S[Len(S)]>>, <<1>> \o Tail(S)} ELSE {}))

\* a 1-d right-hand side (one value per point) only when there is no slice dimension and the points are distinct
PtRhsShapes ==
  LET r == ResolveIndex(in.a, in.idxs, in.mode, in.tol)
      n == PointCount(r, in.idxs)
  IN IF (\A i \in 1..Len(r) : r[i].ok) /\ PointsOK(r, in.idxs) /\ (\A i \in 1..Len(r) : in.idxs[i].k # "all")
        /\ (\A p, q \in 1..n : p # q => PointCoord(r, in.idxs, p) # PointCoord(r, in.idxs, q))
     THEN {<<n>>} ELSE {}
ChooseRhs ==
  /\ ph = 2 /\ ph' = 3 /\ out' = out
  /\ CASE in.fam = "forms"  -> \E sh \in RhsShapes(SelShape) : \E ip \in BOOLEAN :
                                  in' = [in EXCEPT !.rhs = MkRhs(sh, "f"), !.inplace = ip]
       [] in.fam = "dtypes" -> \E k \in Kinds : \E cast \in BOOLEAN : \E sh \in {<<>>, SelShape} :
                                  /\ (~cast => (k = in.a.dtype \/ (in.a.dtype = "f" /\ k = "i")))
                                  /\ in' = [in EXCEPT !.rhs = MkRhs(sh, k), !.cast = cast]
       [] in.fam = "mask"   -> \E ip \in BOOLEAN : \E sh \in {<<>>, <<Len(MaskPos(in.mask))>>} : \E k \in {"f", "i"} : \E cast \in BOOLEAN :
                                  /\ (~cast => (k = in.a.dtype \/ (in.a.dtype = "f" /\ k = "i")))
                                  /\ in' = [in EXCEPT !.rhs = MkRhs(sh, k), !.inplace = ip, !.cast = cast]
       [] in.fam = "values" -> \E k \in Kinds : \E sh \in {<<>>, Shape(in.a), <<Shape(in.a)[NDim(in.a)]>>} :
                                  in' = [in EXCEPT !.rhs = MkRhs(sh, k), !.cast = TRUE]
       [] in.fam = "points" -> \E kc \in {<<in.a.dtype, FALSE>>, <<IF in.a.dtype = "f" THEN "i" ELSE "f", TRUE>>, <<"O", TRUE>>} :
                               \E ip \in BOOLEAN : \E sh \in {<<>>} \cup PtRhsShapes :
                                  in' = [in EXCEPT !.rhs = MkRhs(sh, kc[1]), !.cast = kc[2], !.inplace = ip]

\* N-d boolean mask assignment: cells where the mask is TRUE receive the scalar, or the k-th value of a 1-d rhs
PutMask(a, m, rhs) ==
  LET nth(k) == Cardinality({j \in 1..k : m[j]})
  IN [a EXCEPT !.cells = [k \in 1..Len(a.cells) |->
        IF m[k] THEN (IF rhs.shape = <<>> THEN rhs.cells[1] ELSE rhs.cells[nth(k)]) ELSE a.cells[k]]]

Written(res) == \E k \in 1..Len(res.cells) : res.cells[k] > 900
DtypeSet(a, res, rhs, cast) ==
  IF ~cast THEN {a.dtype}
  ELSE Lossless(a.dtype, rhs.kind) \cup (IF Written(res) THEN {} ELSE {a.dtype})

Apply ==
  /\ ph = 3 /\ ph' = 4 /\ in' = in
  /\ LET r == IF in.fam = "mask" THEN Ok(PutMask(in.a, in.mask, in.rhs))
              ELSE IF in.fam = "points" THEN PutPoints(in.a, in.idxs, in.mode, in.tol, in.rhs)
              ELSE Put(in.a, in.idxs, in.mode, in.tol, in.rhs)
         rb == IF r.ok /\ in.fam \notin {"mask", "points"} THEN Take(r.val, in.idxs, in.mode, in.tol) ELSE Err("")
         \* pointwise read-back: one value per point, when no dimension is sliced
         pts == IF r.ok /\ in.fam = "points" /\ (\A i \in 1..Len(in.idxs) : in.idxs[i].k # "all")
                THEN TakePoints(r.val, in.idxs, in.mode, in.tol) ELSE Err("")
         \* the whole pointwise read (axes included), slices allowed
         pta == IF r.ok /\ in.fam = "points" THEN TakePointsArr(r.val, in.idxs, in.mode, in.tol) ELSE Err("")
     IN /\ out' = [r |-> r, dtypes |-> IF r.ok THEN DtypeSet(in.a, r.val, in.rhs, in.cast) ELSE {}, readback |-> rb, pts |-> pts, pta |-> pta]
        /\ (Emit => PrintT(ToJson([op |-> "put", in |-> in, out |-> out'])))

Next == ChooseArray \/ ChooseIndex \/ ChooseRhs \/ Apply
Spec == Init /\ [][Next]_vars

(* ---------- theorems ---------- *)
\* frame condition: cells not addressed by the index keep their value; axes and metadata unchanged
Frame ==
  (ph = 4 /\ out.r.ok /\ in.fam \notin {"mask", "points"}) =>
    LET r == ResolveIndex(in.a, in.idxs, in.mode, in.tol)
        cs == Coords(Shape(in.a))
        addressed(c) == \A i \in 1..Len(c) : \E j \in 1..Len(r[i].pos) : r[i].pos[j] = c[i]
    IN /\ \A k \in 1..Len(cs) : IF addressed(cs[k]) THEN out.r.val.cells[k] > 900 ELSE out.r.val.cells[k] = in.a.cells[k]
       /\ [out.r.val EXCEPT !.cells = in.a.cells] = in.a
\* reading back the same index returns the broadcast right-hand side
ReadBack ==
  (ph = 4 /\ out.r.ok /\ in.fam \notin {"mask", "points"} /\ ~HasRepeat) =>
    /\ out.readback.ok
    /\ LET S == ShapeOf(out.readback.val.labs)  cs == Coords(S)
       IN \A k \in 1..Len(cs) : out.readback.val.cells[k] = BcastCell(in.rhs, S, cs[k])
\* an assignment fails iff the read through the same index fails
ErrIffReadErr == ph = 4 /\ in.fam \notin {"mask", "points"} => (out.r.ok <=> Take(in.a, in.idxs, in.mode, in.tol).ok)
\* pointwise assignment: a cell changes iff one of the points addresses it; never more cells than the orthogonal box;
\* what the same pointwise index reads back is the assigned value
PointsFrame ==
  (ph = 4 /\ in.fam = "points" /\ out.r.ok) =>
    LET r == ResolveIndex(in.a, in.idxs, in.mode, in.tol)
        cs == Coords(Shape(in.a))
        box == Put(in.a, in.idxs, in.mode, in.tol, MkRhs(<<>>, "f")).val
    IN /\ \A k \in 1..Len(cs) : (out.r.val.cells[k] > 900) <=> (\E p \in 1..PointCount(r, in.idxs) : Hits(r, in.idxs, cs[k], p))
       /\ \A k \in 1..Len(cs) : out.r.val.cells[k] > 900 => box.cells[k] > 900
       /\ \A k \in 1..Len(cs) : out.r.val.cells[k] <= 900 => out.r.val.cells[k] = in.a.cells[k]
       /\ [out.r.val EXCEPT !.cells = in.a.cells] = in.a
PointsReadBack ==
  (ph = 4 /\ in.fam = "points" /\ out.pts.ok) =>
    \A p \in 1..Len(out.pts.val) : out.pts.val[p] > 900 /\ (in.rhs.shape # <<>> => out.pts.val[p] = in.rhs.cells[p])
\* the pointwise read as an array: one broadcast axis of PointCount tuples, the sliced dimensions in their order; its cells are
\* cells of the orthogonal box (the "diagonal"), and without slices they are exactly the per-point values
PointsArr ==
  (ph = 4 /\ in.fam = "points" /\ out.r.ok) =>
    /\ out.pta.ok
    /\ LET v == out.pta.val
           r == ResolveIndex(in.a, in.idxs, in.mode, in.tol)
           box == Take(out.r.val, in.idxs, in.mode, in.tol).val
       IN /\ Len(v.cells) = Prod(ShapeOf(v.labs))
          /\ Len(v.labs[v.ins + 1]) = PointCount(r, in.idxs)
          /\ \A j \in 1..Len(v.labs) : \A t \in 1..Len(v.labs[j]) : Len(v.labs[j][t]) = Len(v.srcdims[j])
          /\ \A j1, j2 \in 1..Len(v.srcdims) : j1 < j2 /\ j1 # v.ins + 1 /\ j2 # v.ins + 1 => v.srcdims[j1][1] < v.srcdims[j2][1]
          /\ \A k \in 1..Len(v.cells) : \E m \in 1..Len(box.cells) : box.cells[m] = v.cells[k]
          /\ (out.pts.ok => v.cells = out.pts.val)
PointsErr == (ph = 4 /\ in.fam = "points") => (out.r.ok <=> TakePoints(in.a, in.idxs, in.mode, in.tol).ok)
=============================================================================
