------------------------------- MODULE MC_C12 -------------------------------
(***************************************************************************)
(* C12: stack and concatenate join arrays by dimension name and label.     *)
(* Outcome record: [ok, val, err, mayrefuse, free]                         *)
(*   mayrefuse: the inputs list their dimensions in different orders, so   *)
(*   refusing (ValueError) is admissible as well as the by-name result.    *)
(***************************************************************************)
EXTENDS Arrays, Json
CONSTANTS MaxArr, Emit
VARIABLES in, out, ph
vars == <<in, out, ph>>

Outc(ok, val, err, mayrefuse, free) == [ok |-> ok, val |-> val, err |-> err, mayrefuse |-> mayrefuse, free |-> free]

\* bring array b into the dimension order dims (same set of names)
Reorder(b, dims) == Transpose(b, [k \in 1..Len(dims) |-> DimPos(b, dims[k])])
SameDimSet(arrs) == \A i \in 1..Len(arrs) : Rng(arrs[i].dims) = Rng(arrs[1].dims) /\ Len(arrs[i].dims) = Len(arrs[1].dims)
SameOrder(arrs) == \A i \in 1..Len(arrs) : arrs[i].dims = arrs[1].dims
\* secondary axes (all dims except skip, "" = none) carry identical label sequences in every input
SameLabels(arrs, skip) ==
  \A i \in 1..Len(arrs) : \A k \in 1..NDim(arrs[1]) :
     arrs[1].dims[k] # skip => arrs[i].labs[DimPos(arrs[i], arrs[1].dims[k])] = arrs[1].labs[k]

\* cells of several arrays (same shape apart from the first dimension) put one after the other = joining along the first dimension
CatCells(xs) == FlattenSeq([i \in 1..Len(xs) |-> xs[i].cells])
RECURSIVE CatLabs(_, _)
CatLabs(xs, p) == IF xs = <<>> THEN <<>> ELSE xs[1].labs[p] \o CatLabs(Tail(xs), p)
AnyFloat(xs) == \E i \in 1..Len(xs) : xs[i].dtype = "f"

Stack(arrs, newdim, keys, align, sort) ==
  IF ~SameDimSet(arrs) THEN Outc(FALSE, <<>>, "ValueError", FALSE, <<>>)
  ELSE LET ro == [i \in 1..Len(arrs) |-> Reorder(arrs[i], arrs[1].dims)]
       IN IF ~align /\ ~SameLabels(ro, "") THEN Outc(FALSE, <<>>, "ValueError", FALSE, <<>>)
          ELSE LET al == IF align THEN Align(ro, "outer", sort, <<>>) ELSE [arrs |-> ro, free |-> <<>>]
                   xs == al.arrs
               IN Outc(TRUE,
                       [dims |-> <<newdim>> \o xs[1].dims, kinds |-> <<"i">> \o xs[1].kinds, labs |-> <<keys>> \o xs[1].labs,
                        aattrs |-> <<0>> \o xs[1].aattrs, dtype |-> IF AnyFloat(xs) THEN "f" ELSE xs[1].dtype, attrs |-> 0,
                        cells |-> CatCells(xs)],
                       "", ~SameOrder(arrs), al.free)

\* concatenate along dimension d (a name of the first array): bring d to the front, join the cells, bring it back
Concat(arrs, d, align, sort) ==
  IF ~SameDimSet(arrs) THEN Outc(FALSE, <<>>, "ValueError", FALSE, <<>>)
  ELSE LET ro == [i \in 1..Len(arrs) |-> Reorder(arrs[i], arrs[1].dims)]
       IN IF ~align /\ ~SameLabels(ro, d) THEN Outc(FALSE, <<>>, "ValueError", FALSE, <<>>)
          ELSE LET others == SelectSeq(arrs[1].dims, LAMBDA x : x # d)
                   RECURSIVE AlignDims(_, _)
                   AlignDims(as, k) == IF k > Len(others) THEN [arrs |-> as, free |-> <<>>]
                                       ELSE LET one == Align(as, "outer", sort, <<others[k]>>)
                                                rest == AlignDims(one.arrs, k + 1)
                                            IN [arrs |-> rest.arrs, free |-> one.free \o rest.free]
                   al == IF align THEN AlignDims(ro, 1) ELSE [arrs |-> ro, free |-> <<>>]
                   xs == al.arrs
                   n == NDim(xs[1])
                   p == DimPos(xs[1], d)
                   front == <<p>> \o SelectSeq([k \in 1..n |-> k], LAMBDA k : k # p)          \* perm: d first
                   back == [k \in 1..n |-> IF k = p THEN 1 ELSE IF k < p THEN k + 1 ELSE k]   \* inverse perm
                   fs == [i \in 1..Len(xs) |-> Transpose(xs[i], front)]
                   joined == [fs[1] EXCEPT !.labs[1] = CatLabs(fs, 1), !.cells = CatCells(fs),
                                           !.aattrs = [k \in 1..n |-> 0], !.attrs = 0,
                                           !.dtype = IF AnyFloat(xs) THEN "f" ELSE xs[1].dtype]
               IN Outc(TRUE, Transpose(joined, back), "", ~SameOrder(arrs), al.free)

(* ---------- scenarios ---------- *)
XM == {<<2, 4>>, <<4, 2>>, <<4, 6>>, <<6, 8>>}            \* equal / permuted / overlapping / disjoint w.r.t. <<2,4>>
YM == {<<2, 6>>, <<6, 2>>, <<2, 6, 4>>}
Arr(dims, xl, yl, k) == Fresh(dims, [i \in 1..Len(dims) |-> "i"], [i \in 1..Len(dims) |-> IF dims[i] = "x" THEN xl ELSE yl],
                              [i \in 1..Len(dims) |-> i], "i", k, 100 * k)
NoIn == [op |-> "", arrs |-> <<>>, newdim |-> "", keys |-> <<>>, keykind |-> "", d |-> "", align |-> FALSE, sort |-> FALSE, container |-> ""]
Init == in = NoIn /\ out = <<>> /\ ph = 0

ChooseArrays ==
  /\ ph = 0 /\ ph' = 1 /\ out' = out
  /\ \E n \in 1..MaxArr : \E two \in BOOLEAN :
       IF two
       THEN \E xs \in [1..n -> XM] : \E ys \in [1..n -> YM] : \E flip \in [1..n -> BOOLEAN] :
              /\ ~flip[1]
              /\ in' = [NoIn EXCEPT !.arrs = [k \in 1..n |-> Arr(IF flip[k] THEN <<"y", "x">> ELSE <<"x", "y">>, xs[k], ys[k], k)]]
       ELSE \E m \in {n, 3} : \E xs \in [1..m -> XM] : in' = [NoIn EXCEPT !.arrs = [k \in 1..m |-> Arr(<<"x">>, xs[k], <<>>, k)]]

\* cube-shaped 3-d inputs whose later member lists the dimensions in any of the 6 orders (a positional mix-up is shape-compatible)
Perm3 == {p \in [1..3 -> 1..3] : \A i, j \in 1..3 : i # j => p[i] # p[j]}
Lab3(d, variant) == CASE d = "x" -> <<2, 4>> [] d = "y" -> (IF variant THEN <<6, 2>> ELSE <<2, 6>>) [] d = "z" -> <<4, 2>>
Arr3(p, variant, k) ==
  LET names == <<"x", "y", "z">>
      dims == [i \in 1..3 |-> names[p[i]]]
  IN Fresh(dims, <<"i", "i", "i">>, [i \in 1..3 |-> Lab3(dims[i], variant)], <<1, 2, 3>>, "i", k, 100 * k)
ChooseArrays3 ==
  /\ ph = 0 /\ ph' = 1 /\ out' = out
  /\ \E p \in Perm3 : \E variant \in BOOLEAN :
       in' = [NoIn EXCEPT !.arrs = <<Arr3(<<1, 2, 3>>, FALSE, 1), Arr3(p, variant, 2)>>]

\* three 2-d inputs of which the first and the last agree and the middle one differs (labels, order of labels, order of dims):
\* the check of the other axes must look at every input, not only at the ends
ChooseArraysMid ==
  /\ ph = 0 /\ ph' = 1 /\ out' = out
  /\ \E xm \in XM : \E ym \in YM : \E flip \in BOOLEAN : \E pos \in 2..3 :
       LET odd == Arr(IF flip THEN <<"y", "x">> ELSE <<"x", "y">>, xm, ym, pos)
           reg(k) == Arr(<<"x", "y">>, <<2, 4>>, <<2, 6>>, k)
       IN in' = [NoIn EXCEPT !.arrs = IF pos = 2 THEN <<reg(1), odd, reg(3)>> ELSE <<reg(1), reg(2), odd>>]

\* single-label axes: equal or different labels (a length-1 axis is an axis like any other: its label must match or be aligned)
ChooseArraysSingle ==
  /\ ph = 0 /\ ph' = 1 /\ out' = out
  /\ \E x2 \in {<<2>>, <<4>>} : \E two \in BOOLEAN : \E y2 \in {<<2, 6>>, <<6, 2>>} :
       in' = [NoIn EXCEPT !.arrs = IF two THEN <<Arr(<<"x", "y">>, <<2>>, <<2, 6>>, 1), Arr(<<"x", "y">>, x2, y2, 2)>>
                                   ELSE <<Arr(<<"x">>, <<2>>, <<>>, 1), Arr(<<"x">>, x2, <<>>, 2)>>]

\* a secondary axis of four labels of which the two inner ones are swapped in the second input (first and last in place)
ChooseArraysInner ==
  /\ ph = 0 /\ ph' = 1 /\ out' = out
  /\ \E flip \in BOOLEAN : \E third \in BOOLEAN :
       LET one == Arr(<<"x", "y">>, <<2, 4>>, <<2, 4, 6, 8>>, 1)
           two == Arr(IF flip THEN <<"y", "x">> ELSE <<"x", "y">>, <<2, 4>>, <<2, 6, 4, 8>>, 2)
       IN in' = [NoIn EXCEPT !.arrs = IF third THEN <<one, two, Arr(<<"x", "y">>, <<2, 4>>, <<2, 4, 6, 8>>, 3)>> ELSE <<one, two>>]

ChooseOp ==
  /\ ph = 1 /\ ph' = 2 /\ out' = out
  /\ \E al \in BOOLEAN : \E so \in BOOLEAN :
       /\ (so => al)
       \* keys: new labels, or (kp) the numbers n-1..0 - valid positions of the list, in another order: still only labels
       /\ \/ \E kp \in BOOLEAN :
             in' = [in EXCEPT !.op = "stack", !.newdim = "k",
                              !.keys = [j \in 1..Len(in.arrs) |-> IF kp THEN Len(in.arrs) - j ELSE 2 * (Len(in.arrs) - j)],
                              !.align = al, !.sort = so]
          \/ \E d \in Rng(in.arrs[1].dims) : in' = [in EXCEPT !.op = "concatenate", !.d = d, !.align = al, !.sort = so]

Apply ==
  /\ ph = 2 /\ ph' = 3 /\ in' = in
  /\ out' = IF in.op = "stack"
            THEN Stack(in.arrs, in.newdim, in.keys, in.align, in.sort)
            ELSE Concat(in.arrs, in.d, in.align, in.sort)
  /\ (Emit => PrintT(ToJson([op |-> in.op, in |-> in, out |-> out'])))
Next == ChooseArrays \/ ChooseArrays3 \/ ChooseArraysMid \/ ChooseArraysSingle \/ ChooseArraysInner \/ ChooseOp \/ Apply
Spec == Init /\ [][Next]_vars

(* ---------- theorems ---------- *)
\* every input's cells sit, in the result, at the input's own labels (by name), under its key / in its segment
CellAt(a, names, labels) ==     \* cell of a at the given labels of the named dims, or NaN
  LET src == [i \in 1..NDim(a) |-> FirstPos(a.labs[i], labels[CHOOSE k \in 1..Len(names) : names[k] = a.dims[i]])]
  IN IF \E i \in 1..NDim(a) : src[i] = <<>> THEN NaN ELSE At(a, [i \in 1..NDim(a) |-> src[i][1]])
StackSound ==
  (ph = 3 /\ in.op = "stack" /\ out.ok) =>
     LET r == out.val IN
     \A c \in Rng(Coords(Shape(r))) :
        At(r, c) = CellAt(in.arrs[c[1]], Tail(r.dims), [k \in 1..(NDim(r) - 1) |-> r.labs[k + 1][c[k + 1]]])
ConcatSound ==
  (ph = 3 /\ in.op = "concatenate" /\ out.ok) =>
     LET r == out.val  p == DimPos(r, in.d) IN
     /\ Len(r.labs[p]) = LET RECURSIVE S(_) S(j) == IF j = 0 THEN 0 ELSE Len(in.arrs[j].labs[DimPos(in.arrs[j], in.d)]) + S(j - 1) IN S(Len(in.arrs))
     /\ \A k \in 1..Len(in.arrs) : \A v \in Rng(in.arrs[k].cells) : v \in Rng(r.cells)
RefuseIffMismatch ==
  ph = 3 => (~out.ok <=> (~in.align /\ ~SameLabels([i \in 1..Len(in.arrs) |-> Reorder(in.arrs[i], in.arrs[1].dims)], in.d)))
=============================================================================
