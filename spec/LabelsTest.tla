---- MODULE LabelsTest ----
EXTENDS Labels
S(x) == <<x>>
N == <<>>
ASSUME LocSlice(<<10,20,30>>, TRUE, S(25), S(15), S(-1)).pos = <<2>>
ASSUME LocSlice(<<10,20,30>>, TRUE, S(30), S(10), S(-1)).pos = <<3,2,1>>
ASSUME LocSlice(<<10,20,30>>, TRUE, S(5), S(0), S(-1)).pos = <<>>
ASSUME LocSlice(<<10,20,30>>, TRUE, S(35), S(40), N).pos = <<>>
ASSUME LocSlice(<<30,20,10>>, TRUE, S(25), S(15), N).pos = <<2>>
ASSUME LocSlice(<<30,20,10>>, TRUE, S(15), S(25), N).pos = <<>>
ASSUME LocSlice(<<30,20,10>>, TRUE, S(5), S(40), S(-1)).pos = <<3,2,1>>
ASSUME LocSlice(<<30,20,10>>, TRUE, S(35), S(40), S(-1)).pos = <<>>
ASSUME LocSlice(<<>>, TRUE, S(5), S(15), N).pos = <<>>
ASSUME LocSlice(<<10>>, TRUE, S(15), S(5), S(-1)).pos = <<1>>
ASSUME LocSlice(<<20,10,30>>, TRUE, S(20), S(30), N).pos = <<1,2,3>>
ASSUME LocSlice(<<20,10,30>>, TRUE, S(30), S(20), S(-1)).pos = <<3,2,1>>
ASSUME LocSlice(<<20,10,30>>, TRUE, S(15), S(30), N).ok = FALSE
ASSUME LocSlice(<<2,1,3>>, FALSE, S(3), S(1), S(-1)).pos = <<3,2>>
ASSUME LocSlice(<<2,1,3>>, FALSE, S(1), N, N).pos = <<2,3>>
ASSUME LocSlice(<<2,4,6,8>>, TRUE, S(3), N, S(2)).pos = <<2,4>>
ASSUME UnionOK(<< <<3,1,2>>, <<2,3,4>> >>, FALSE, <<3,1,2,4>>)
ASSUME ~UnionOK(<< <<1,2>>, <<2,3>> >>, FALSE, <<1,2,2,3>>)
ASSUME ~UnionOK(<< <<1,2>>, <<2,3>> >>, FALSE, <<2,1,3>>)
ASSUME UnionOK(<< <<4,2>>, <<3,1>> >>, FALSE, <<4,3,2,1>>)
ASSUME UnionOK(<< <<3,2,1>>, <<5>> >>, FALSE, <<3,2,1,5>>)
ASSUME ReindexPos(<<30,10,20>>, <<10,20,30,25>>, "right") = <<3,1,1,1>>
ASSUME ReindexPos(<<30,10,20>>, <<20,15,30,45,5>>, "left") = <<3,3,1,1,2>>
ASSUME ReindexPos(<<30,10,20>>, <<20,15>>, "none") = <<3,0>>
ASSUME Product(<< <<1,2>>, <<7,8,9>> >>) = << <<1,7>>, <<1,8>>, <<1,9>>, <<2,7>>, <<2,8>>, <<2,9>> >>
ASSUME DiffLabels(DiffLabels(<<60,20,40>>, "centered"), "centered") = <<35>>
ASSUME SortedPerm(<<30,10,20>>) = <<2,3,1>>
ASSUME PosSlice(5, N, N, N) = <<1,2,3,4,5>>
ASSUME PosSlice(5, S(1), S(4), S(2)) = <<2,4>>
ASSUME PosSlice(5, N, N, S(-1)) = <<5,4,3,2,1>>
ASSUME PosSlice(5, S(-2), N, N) = <<4,5>>
ASSUME PosSlice(5, S(3), S(0), S(-2)) = <<4,2>>
ASSUME PosSlice(5, S(7), S(-9), S(-2)) = <<5,3,1>>
ASSUME PosSlice(0, S(1), S(3), N) = <<>>
ASSUME LocateOne(<<10,20,30>>, 24, S(5)) = <<2>>
ASSUME LocateOne(<<10,20,30>>, 25, S(5)) = <<2>>
ASSUME LocateOne(<<10,20,30>>, 36, S(5)) = <<>>
ASSUME LocateOne(<<10,20,30>>, 20, N) = <<2>>
====
