------------------------------- MODULE MC_C11 -------------------------------
(***************************************************************************)
(* C11: flatten, unflatten and reshape group dimensions losslessly.        *)
(* Arrays here carry one more field, members: for every axis either <<>>   *)
(* (plain axis) or the sequence of member axes [name, kind, labs] of a     *)
(* grouped axis, whose labels are tuples (row-major product).              *)
(***************************************************************************)
EXTENDS Arrays, Json
CONSTANTS Big, Emit
VARIABLES in, out, ph
vars == <<in, out, ph>>

AddM(a, m) == [dims |-> a.dims, kinds |-> a.kinds, labs |-> a.labs, aattrs |-> a.aattrs, dtype |-> a.dtype,
               attrs |-> a.attrs, cells |-> a.cells, members |-> m]
Plain(a) == AddM(a, [i \in 1..NDim(a) |-> <<>>])

RECURSIVE JoinNames(_)
JoinNames(ns) == IF Len(ns) = 1 THEN ns[1] ELSE ns[1] \o "," \o JoinNames(Tail(ns))

\* S: positions of the dimensions to group, in the listed order; ins0: 0-based insert position among the remaining dims
Flatten(a, S, ins0) ==
  LET n == NDim(a)
      R == SelectSeq([i \in 1..n |-> i], LAMBDA i : \A j \in 1..Len(S) : S[j] # i)
      k == Min2(ins0, Len(R))
      gshape == [j \in 1..Len(S) |-> Len(a.labs[S[j]])]
      gc == Coords(gshape)
      glabs == [q \in 1..Len(gc) |-> [j \in 1..Len(S) |-> a.labs[S[j]][gc[q][j]]]]
      mem == [j \in 1..Len(S) |-> [name |-> a.dims[S[j]], kind |-> a.kinds[S[j]], labs |-> a.labs[S[j]], aattrs |-> a.aattrs[S[j]]]]
      rankR(i) == CHOOSE r \in 1..Len(R) : R[r] = i               \* index of plain dim i within R
      newpos(i) == IF rankR(i) <= k THEN rankR(i) ELSE rankR(i) + 1
      posS(i) == CHOOSE j \in 1..Len(S) : S[j] = i
      src(c) == [i \in 1..n |-> IF \E j \in 1..Len(S) : S[j] = i THEN gc[c[k + 1]][posS(i)] ELSE c[newpos(i)]]
      base == Mk(InsertAt(Gather(a.dims, R), k + 1, JoinNames(Gather(a.dims, S))),
                 InsertAt(Gather(a.kinds, R), k + 1, "t"),
                 InsertAt(Gather(a.labs, R), k + 1, glabs),
                 InsertAt(Gather(a.aattrs, R), k + 1, 0), a.dtype, a.attrs, LAMBDA c : At(a, src(c)))
  IN AddM(base, InsertAt(Gather(a.members, R), k + 1, mem))

\* default insert position: where the first listed dimension sits in the array
DefaultInsert(a, S) == S[1] - 1

\* expand the grouped axis at position g into its member axes
Unflatten(a, g) ==
  LET mem == a.members[g]
      m == Len(mem)
      n == NDim(a)
      mshape == [j \in 1..m |-> Len(mem[j].labs)]
      splice(s, new) == SubSeq(s, 1, g - 1) \o new \o SubSeq(s, g + 1, Len(s))
      \* coordinate of the grouped position for member coordinates mc
      base == Mk(splice(a.dims, [j \in 1..m |-> mem[j].name]), splice(a.kinds, [j \in 1..m |-> mem[j].kind]),
                 splice(a.labs, [j \in 1..m |-> mem[j].labs]), splice(a.aattrs, [j \in 1..m |-> mem[j].aattrs]),
                 a.dtype, a.attrs,
                 LAMBDA c : At(a, SubSeq(c, 1, g - 1) \o <<FlatOff(mshape, SubSeq(c, g, g + m - 1)) + 1>> \o SubSeq(c, g + m, Len(c))))
  IN AddM(base, splice(a.members, [j \in 1..m |-> <<>>]))
RECURSIVE UnflattenAll(_)
UnflattenAll(a) == IF \E g \in 1..NDim(a) : a.members[g] # <<>>
                   THEN UnflattenAll(Unflatten(a, CHOOSE g \in 1..NDim(a) : a.members[g] # <<>>))
                   ELSE a

\* transpose / squeeze / newaxis lifted to arrays with members (only applied to arrays without groups)
TransposeM(a, p) == Plain(Transpose(a, p))

\* reshape(newdims): newdims is a sequence of groups, each a sequence of member names (singleton group = plain dim)
Reshape(a, groups) ==
  LET u == UnflattenAll(a)
      T == FlattenSeq(groups)
      u1 == Squeeze(u, 0)                                             \* candidates to drop are singletons not in T
      keepdims == SelectSeq(u.dims, LAMBDA d : (\E k \in 1..Len(T) : T[k] = d) \/ Len(u.labs[DimPos(u, d)]) > 1)
      \* drop the singleton dims not requested
      dropped == LET kept == SelectSeq(Idx(u.dims), LAMBDA i : \E k \in 1..Len(T) : T[k] = u.dims[i])
                     rank(i) == Cardinality({q \in 1..i : \E k \in 1..Len(T) : T[k] = u.dims[q]})
                 IN Mk(Gather(u.dims, kept), Gather(u.kinds, kept), Gather(u.labs, kept), Gather(u.aattrs, kept), u.dtype, u.attrs,
                       LAMBDA c : At(u, [i \in 1..NDim(u) |-> IF \E k \in 1..Len(T) : T[k] = u.dims[i] THEN c[rank(i)] ELSE 1]))
      \* add the requested dims that do not exist yet (singletons, label None) and order everything as T
      full == Mk(T, [k \in 1..Len(T) |-> IF HasDim(dropped, T[k]) THEN dropped.kinds[DimPos(dropped, T[k])] ELSE "n"],
                 [k \in 1..Len(T) |-> IF HasDim(dropped, T[k]) THEN dropped.labs[DimPos(dropped, T[k])] ELSE <<0>>],
                 [k \in 1..Len(T) |-> IF HasDim(dropped, T[k]) THEN dropped.aattrs[DimPos(dropped, T[k])] ELSE 0],
                 u.dtype, u.attrs,
                 LAMBDA c : At(dropped, [i \in 1..NDim(dropped) |-> c[CHOOSE k \in 1..Len(T) : T[k] = dropped.dims[i]]]))
      RECURSIVE Group(_, _, _)
      Group(arr, gi, pos) ==      \* flatten group gi (members at positions pos..pos+len-1), then the following groups
        IF gi > Len(groups) THEN arr
        ELSE IF Len(groups[gi]) = 1 THEN Group(arr, gi + 1, pos + 1)
        ELSE Group(Flatten(arr, [j \in 1..Len(groups[gi]) |-> pos + j - 1], pos - 1), gi + 1, pos + 1)
  IN Group(Plain(full), 1, 1)
ReshapeOK(a, groups) ==
  LET u == UnflattenAll(a)  T == FlattenSeq(groups)
  IN /\ NoDup(T)
     /\ \A i \in 1..NDim(u) : (\E k \in 1..Len(T) : T[k] = u.dims[i]) \/ Len(u.labs[i]) = 1

(* ---------- scenarios ---------- *)
DimNames == <<"x", "y", "z", "w">>
Pool == << <<4, 2>>, <<2, 6, 4>>, <<6, 2>>, <<8>> >>
ArrN(nd) == Plain(Fresh(SubSeq(DimNames, 1, nd), [i \in 1..nd |-> "i"], SubSeq(Pool, 1, nd), [i \in 1..nd |-> i], "f", 7, 100))
OrdSubsets(n) == {p \in UNION {[1..m -> 1..n] : m \in 1..n} : \A i, j \in 1..Len(p) : i # j => p[i] # p[j]}

NoIn == [op |-> "", a |-> <<>>, S |-> <<>>, form |-> "", insert |-> <<>>, groups |-> <<>>, pre |-> <<>>]   \* pre: dimensions flattened before a reshape
Init == in = NoIn /\ out = <<>> /\ ph = 0

\* two labelled singleton dimensions r, s and a longer one: reshape may drop one singleton and must keep the other's label
ArrS == Plain(Fresh(<<"r", "s", "x">>, <<"i", "i", "i">>, << <<8>>, <<6>>, <<4, 2>> >>, <<1, 2, 3>>, "f", 7, 100))
Choose ==
  /\ ph = 0 /\ ph' = 1 /\ out' = out
  /\ \E tk \in 1..(IF Big THEN 5 ELSE 4) :
       LET a == IF tk = (IF Big THEN 5 ELSE 4) THEN ArrS ELSE ArrN(tk)
           nd == NDim(a) IN
       \/ \E S \in OrdSubsets(nd) : \E ins \in {<<>>} \cup {<<k>> : k \in 0..(nd - Len(S))} : \E form \in {"tuple", "list", "set"} :
             /\ (form = "set" => IsInc(S))                       \* a set means array order
             /\ in' = [NoIn EXCEPT !.op = "flatten", !.a = a, !.S = S, !.insert = ins, !.form = form]
       \* reshape targets: partitions of a permutation of the dims into consecutive groups, optionally with one new singleton "n"
       \/ \E p \in OrdSubsets(nd) : \E cut \in SUBSET (1..(Len(p) - 1)) : \E addn \in 0..(Len(p) + 1) :
             LET gs == LET bounds == SortSet({0} \cup cut \cup {Len(p)})
                       IN [g \in 1..(Len(bounds) - 1) |-> [j \in 1..(bounds[g + 1] - bounds[g]) |-> a.dims[p[bounds[g] + j]]]]
                 gs2 == IF addn = 0 THEN gs ELSE InsertAt(gs, Min2(addn, Len(gs) + 1), <<"n">>)
             IN /\ ReshapeOK(a, gs2)
                /\ in' = [NoIn EXCEPT !.op = "reshape", !.a = a, !.groups = gs2]

\* two grouped axes at once: the 4-d template regrouped into two pairs, for every order of the dimensions
ChooseTwoGroups ==
  /\ ph = 0 /\ ph' = 1 /\ out' = out
  /\ \E p \in {q \in OrdSubsets(4) : Len(q) = 4} : \E addn \in 0..3 : \E inn \in 0..2 :
       LET a == ArrN(4)
           g1 == <<a.dims[p[1]], a.dims[p[2]]>>
           g2 == <<a.dims[p[3]], a.dims[p[4]]>>
           \* a new singleton "n" as a group of its own before / between / after the pairs, or as the first member of a pair
           gs == CASE addn = 0 /\ inn = 0 -> <<g1, g2>>
                   [] addn = 0 /\ inn = 1 -> << <<"n">> \o g1, g2>>
                   [] addn = 0 /\ inn = 2 -> <<g1, <<"n">> \o g2>>
                   [] OTHER -> InsertAt(<<g1, g2>>, addn, <<"n">>)
       IN /\ (addn > 0 => inn = 0)
          /\ in' = [NoIn EXCEPT !.op = "reshape", !.a = a, !.groups = gs]
\* three groups out of four dimensions plus the new singleton, followed by a plain dimension
ChooseThreeGroups ==
  /\ ph = 0 /\ ph' = 1 /\ out' = out
  /\ \E p \in {q \in OrdSubsets(4) : Len(q) = 4} : \E w \in 1..3 :
       LET a == ArrN(4)
           gs == CASE w = 1 -> << <<a.dims[p[1]], "n">>, <<a.dims[p[2]], a.dims[p[3]]>>, <<a.dims[p[4]]>> >>
                   [] w = 2 -> << <<a.dims[p[1]]>>, <<a.dims[p[2]], "n">>, <<a.dims[p[3]], a.dims[p[4]]>> >>
                   [] w = 3 -> << <<a.dims[p[1]], a.dims[p[2]]>>, <<a.dims[p[3]]>>, <<"n", a.dims[p[4]]>> >>
       IN in' = [NoIn EXCEPT !.op = "reshape", !.a = a, !.groups = gs]

\* reshape of an array that already carries a grouped axis (in.pre flattened first): the group kept under the same name and
\* moved, next to a new singleton, merged with the remaining dimension
ChoosePreGrouped ==
  /\ ph = 0 /\ ph' = 1 /\ out' = out
  /\ \E pre \in {<<2, 3>>, <<1, 2>>, <<3, 1>>, <<1, 3>>} : \E w \in 1..6 :
       LET a == ArrN(3)
           g == Gather(a.dims, pre)
           r == <<CHOOSE d \in Rng(a.dims) : \A j \in 1..Len(g) : g[j] # d>>
           gs == CASE w = 1 -> <<g, r>>
                   [] w = 2 -> <<r, g>>
                   [] w = 3 -> << <<"n">>, g, r>>
                   [] w = 4 -> <<r, <<"n">>, g>>
                   [] w = 5 -> <<g \o r>>
                   [] w = 6 -> <<r \o g>>
       IN in' = [NoIn EXCEPT !.op = "reshape", !.a = a, !.groups = gs, !.pre = pre]

Apply ==
  /\ ph = 1 /\ ph' = 2 /\ in' = in
  /\ out' = IF in.op = "flatten"
            THEN LET f == Flatten(in.a, in.S, IF in.insert = <<>> THEN DefaultInsert(in.a, in.S) ELSE in.insert[1])
                 IN [r |-> f, back |-> UnflattenAll(f)]
            ELSE LET base == IF in.pre = <<>> THEN in.a ELSE Flatten(in.a, in.pre, DefaultInsert(in.a, in.pre))
                     r == Reshape(base, in.groups) IN [r |-> r, back |-> UnflattenAll(r)]
  /\ (Emit => PrintT(ToJson([op |-> in.op, in |-> in, out |-> out'])))
Next == Choose \/ ChooseTwoGroups \/ ChooseThreeGroups \/ ChoosePreGrouped \/ Apply
Spec == Init /\ [][Next]_vars

(* ---------- theorems ---------- *)
\* label coordinates of a cell: the set of <<dim name, label>> pairs it sits at (member dims for grouped axes)
CoordSet(a, k) ==
  LET c == Coords(Shape(a))[k]
  IN UNION {IF a.members[i] = <<>> THEN {<<a.dims[i], a.labs[i][c[i]]>>}
            ELSE {<<a.members[i][j].name, a.labs[i][c[i]][j]>> : j \in 1..Len(a.members[i])} : i \in 1..NDim(a)}
\* grouping preserves every element's label coordinates (singleton None axes aside), loses and invents nothing
LosslessGrouping ==
  ph = 2 => LET r == out.r  a == in.a IN
            /\ Len(r.cells) = Len(a.cells)
            /\ \A k \in 1..Len(r.cells) :
                 LET k0 == CHOOSE q \in 1..Len(a.cells) : a.cells[q] = r.cells[k]
                 IN {p \in CoordSet(r, k) : p[1] # "n"} = {p \in CoordSet(a, k0) : \E q \in CoordSet(r, k) : q[1] = p[1]}
\* flatten followed by unflatten restores the member axes exactly (same cells at the same label coordinates)
RoundTrip ==
  (ph = 2 /\ in.op = "flatten") =>
     LET b == out.back  a == in.a IN
     /\ \A i \in 1..NDim(a) : HasDim(b, a.dims[i]) /\ b.labs[DimPos(b, a.dims[i])] = a.labs[i]
     /\ \A k \in 1..Len(b.cells) : LET k0 == CHOOSE q \in 1..Len(a.cells) : a.cells[q] = b.cells[k] IN CoordSet(b, k) = CoordSet(a, k0)
\* the grouped axis is named by the comma-joined member names in the listed order
Naming == (ph = 2 /\ in.op = "flatten") => \E g \in 1..NDim(out.r) : out.r.dims[g] = JoinNames(Gather(in.a.dims, in.S)) /\ out.r.kinds[g] = "t"
=============================================================================
