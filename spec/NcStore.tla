------------------------------- MODULE NcStore -------------------------------
(***************************************************************************)
(* C19: the file system as seen through dimarray.io.nc.                    *)
(*                                                                         *)
(* One file name; its content is Absent or a record                        *)
(*   [format, dims : Seq(name)            dimensions in file order         *)
(*    axes : Seq([name, kind, labs, aattrs])   the dimension variables     *)
(*    vars : Seq([key, arr])               data variables in file order    *)
(*    gattrs : Int]                        global metadata id              *)
(* The in-memory objects written come from a fixed pool of candidate       *)
(* arrays that agree on the labels of shared dimensions.                   *)
(* Actions: Dataset.write_nc (mode w), DimArray.write_nc with modes        *)
(* w / w- / a / a+, open_nc(f, 'a')[name] = array.  After every action the *)
(* harness reads the file back (read_nc) and compares it with `file`: the  *)
(* round trip; AppendKeeps is an action property of the machine.           *)
(***************************************************************************)
EXTENDS Arrays, Json

CONSTANTS MaxDepth, Formats, DsPool, Emit      \* DsPool: pool indices used by Dataset.write_nc scenarios
VARIABLES file, hist
allvars == <<file, hist>>

Absent == [present |-> FALSE, format |-> "", dims |-> <<>>, axes |-> <<>>, vars |-> <<>>, gattrs |-> 0]

(* ---------- candidate in-memory arrays ---------- *)
AxisOf(d) == CASE d = "x" -> [name |-> "x", kind |-> "i", labs |-> <<4, 2, 6>>, aattrs |-> 1]
               [] d = "y" -> [name |-> "y", kind |-> "f", labs |-> <<3, 7>>, aattrs |-> 2]
               [] d = "z" -> [name |-> "z", kind |-> "s", labs |-> <<6, 2>>, aattrs |-> 0]
Cand(dims, dtype, attrs, base, nanpos) ==
  LET labs == [i \in 1..Len(dims) |-> AxisOf(dims[i]).labs]
      a == Fresh(dims, [i \in 1..Len(dims) |-> AxisOf(dims[i]).kind], labs, [i \in 1..Len(dims) |-> AxisOf(dims[i]).aattrs], dtype, attrs, base)
  IN [a EXCEPT !.cells = [k \in 1..Len(a.cells) |-> IF k \in nanpos THEN NaN ELSE a.cells[k]]]
\* float with NaN, int64, int32 ("j"), str data ("O"); 0-d to 3-d; shared and unshared dimensions
Pool == << Cand(<<"x", "y">>, "f", 7, 100, {2}), Cand(<<"x">>, "i", 8, 200, {}), Cand(<<"y", "x">>, "f", 0, 300, {}),
           Cand(<<>>, "f", 9, 400, {}), Cand(<<"z">>, "O", 7, 500, {}), Cand(<<"z", "x">>, "j", 8, 600, {}),
           Cand(<<"x", "y", "z">>, "f", 0, 700, {1, 5}), Cand(<<"y">>, "i", 0, 800, {}),
           \* same labels on x but other axis metadata: appending it must not touch the axis already in the file
           [Cand(<<"x">>, "f", 0, 900, {}) EXCEPT !.aattrs = <<5>>] >>
Keys == <<"a", "b", "c">>
StrFree(a) == a.dtype # "O" /\ \A i \in 1..Len(a.kinds) : a.kinds[i] # "s"      \* writable in the NETCDF3 formats

HasDimF(f, d) == \E i \in 1..Len(f.dims) : f.dims[i] = d
HasVar(f, k) == \E i \in 1..Len(f.vars) : f.vars[i].key = k
VarOf(f, k) == f.vars[CHOOSE i \in 1..Len(f.vars) : f.vars[i].key = k].arr

\* add variable k = array a to file content f: new dimensions are created in the array's order
AddVar(f, k, a0) ==
  LET newd == SelectSeq(a0.dims, LAMBDA d : ~HasDimF(f, d))
      \* an axis already in the file keeps its metadata; the array's own axis metadata only counts for new dimensions
      a == [a0 EXCEPT !.aattrs = [j \in 1..Len(a0.dims) |->
                 IF HasDimF(f, a0.dims[j]) THEN f.axes[CHOOSE q \in 1..Len(f.dims) : f.dims[q] = a0.dims[j]].aattrs ELSE a0.aattrs[j]]]
  IN [f EXCEPT !.dims = f.dims \o newd,
               !.axes = f.axes \o [i \in 1..Len(newd) |-> LET q == DimPos(a0, newd[i]) IN
                                                         [name |-> newd[i], kind |-> a0.kinds[q], labs |-> a0.labs[q], aattrs |-> a0.aattrs[q]]],
               !.vars = IF HasVar(f, k)
                        THEN [i \in 1..Len(f.vars) |-> IF f.vars[i].key = k
                                                       THEN [key |-> k, arr |-> [a EXCEPT !.attrs = IF a.attrs = 0 THEN f.vars[i].arr.attrs ELSE a.attrs]]
                                                       ELSE f.vars[i]]
                        ELSE Append(f.vars, [key |-> k, arr |-> a])]
Empty(fmt) == [present |-> TRUE, format |-> fmt, dims |-> <<>>, axes |-> <<>>, vars |-> <<>>, gattrs |-> 0]
\* a Dataset: its axes first (dataset order = order of first appearance), then the variables
RECURSIVE AddAll(_, _, _)
AddAll(f, ks, as) == IF ks = <<>> THEN f ELSE AddAll(AddVar(f, Head(ks), Head(as)), Tail(ks), Tail(as))

Record(act, args, ok) == hist' = Append(hist, [act |-> act, args |-> args, ok |-> ok, post |-> file'])
Bound == Len(hist) < MaxDepth
Init == file = Absent /\ hist = <<>>

\* Dataset({keys: pool arrays}).write_nc(f, mode=m, format=fmt)  with dataset metadata id g.  The modes mean what they mean for
\* one array: w starts a new file, w- refuses to touch an existing one, a needs one, a+ appends or creates.  Appending adds the
\* Dataset's new dimensions and its variables to the file and updates the file's metadata with the Dataset's (when it has any).
WriteDatasetA(arrs, tag, fmt, g, m) ==
  /\ Bound /\ Len(arrs) <= Len(Keys)
  /\ LET exists == file.present
         fresh == m = "w" \/ (m \in {"w-", "a+"} /\ ~exists)
         fails == (m = "w-" /\ exists) \/ (m = "a" /\ ~exists)
         target == IF fresh THEN Empty(fmt) ELSE file
     IN /\ (~fails /\ target.format # "NETCDF4" => \A i \in 1..Len(arrs) : StrFree(arrs[i]))
        /\ (~fails /\ ~fresh => \A i \in 1..Len(arrs) : HasVar(file, Keys[i]) => VarOf(file, Keys[i]).dims = arrs[i].dims /\ VarOf(file, Keys[i]).dtype = arrs[i].dtype)
        /\ IF fails THEN UNCHANGED file /\ Record("write_dataset", [idxs |-> tag, fmt |-> fmt, g |-> g, k |-> "", mode |-> m, nk |-> Len(arrs)], FALSE)
           ELSE /\ file' = [AddAll(target, SubSeq(Keys, 1, Len(arrs)), arrs) EXCEPT !.gattrs = IF g # 0 THEN g ELSE target.gattrs]
                /\ Record("write_dataset", [idxs |-> tag, fmt |-> fmt, g |-> g, k |-> "", mode |-> m, nk |-> Len(arrs)], TRUE)
WriteDataset(idxs, fmt, g, m) == WriteDatasetA([i \in 1..Len(idxs) |-> Pool[idxs[i]]], idxs, fmt, g, m)

\* a.write_nc(f, name=k, mode=m, format=fmt) for an explicit array a; `tag` is what the event records about the array
WriteArrayA(a, tag, k, m, fmt) ==
  /\ Bound
  /\ LET dummy == 0
         exists == file.present
         fresh == m = "w" \/ (m \in {"w-", "a+"} /\ ~exists)
         fails == (m = "w-" /\ exists) \/ (m = "a" /\ ~exists)
         target == IF fresh THEN Empty(fmt) ELSE file
     IN /\ (fresh /\ fmt # "NETCDF4" => StrFree(a))
        /\ (~fresh /\ ~fails /\ file.format # "NETCDF4" => StrFree(a))
        \* overwriting an existing variable requires the same dimensions
        /\ (~fresh /\ ~fails /\ HasVar(file, k) => VarOf(file, k).dims = a.dims /\ VarOf(file, k).dtype = a.dtype)
        /\ IF fails THEN UNCHANGED file /\ Record("write_array", [idxs |-> tag, fmt |-> fmt, g |-> 0, k |-> k, mode |-> m, nk |-> 1], FALSE)
           ELSE file' = AddVar(target, k, a) /\ Record("write_array", [idxs |-> tag, fmt |-> fmt, g |-> 0, k |-> k, mode |-> m, nk |-> 1], TRUE)
WriteArray(i, k, m, fmt) == WriteArrayA(Pool[i], <<i>>, k, m, fmt)

\* with open_nc(f, 'a') as ds: ds[k] = a
OpenSetItemA(a, tag, k) ==
  /\ Bound /\ file.present
  /\ LET dummy == 0 IN
     /\ (file.format # "NETCDF4" => StrFree(a))
     /\ (HasVar(file, k) => VarOf(file, k).dims = a.dims /\ VarOf(file, k).dtype = a.dtype)
     /\ file' = AddVar(file, k, a)
     /\ Record("open_setitem", [idxs |-> tag, fmt |-> "", g |-> 0, k |-> k, mode |-> "a", nk |-> 1], TRUE)
OpenSetItem(i, k) == OpenSetItemA(Pool[i], <<i>>, k)

Next ==
  \/ \E n \in 0..2 : \E idxs \in [1..n -> DsPool] : \E fmt \in Formats : \E g \in {0, 9} : \E m \in {"w", "a", "a+"} :
        \* (mode w- is not generated for Datasets: Dataset.write_nc passes clobber=True by default, so w- overwrites - outside C19)
        (m # "w" => n >= 1) /\ WriteDataset(idxs, fmt, g, m)
  \/ \E i \in 1..Len(Pool) : \E k \in {"a", "b"} : \E m \in {"w", "w-", "a", "a+"} : \E fmt \in Formats : WriteArray(i, k, m, fmt)
  \/ \E i \in 1..Len(Pool) : \E k \in {"a", "c"} : OpenSetItem(i, k)
Spec == Init /\ [][Next /\ (Emit => PrintT(ToJson([op |-> "nc_path", path |-> hist'])))]_allvars
View == file
\* simulation: random write sequences, emitted once when they reach MaxDepth
SpecSim == Init /\ [][Next]_allvars
EmitFinal == (Len(hist) = MaxDepth) => PrintT(ToJson([op |-> "nc_path", path |-> hist]))

(* ---------- properties ---------- *)
\* every data variable's axes are the file's axes (labels, kind, metadata); dimension names are unique
Consistent ==
  file.present => /\ NoDup(file.dims) /\ Len(file.axes) = Len(file.dims)
                  /\ \A i \in 1..Len(file.vars) : \A j \in 1..NDim(file.vars[i].arr) :
                       LET a == file.vars[i].arr  d == a.dims[j]
                           p == CHOOSE q \in 1..Len(file.dims) : file.dims[q] = d
                       IN HasDimF(file, d) /\ file.axes[p].labs = a.labs[j] /\ file.axes[p].kind = a.kinds[j]
                  /\ \A i, j \in 1..Len(file.vars) : i # j => file.vars[i].key # file.vars[j].key
\* appending (modes a, a+, open_nc setitem) keeps what was already there
AppendKeeps ==
  [][LET e == hist'[Len(hist')] IN
     (Len(hist') > Len(hist) /\ file.present /\ e.ok /\ e.args.mode \in {"a", "a+"}) =>
        /\ \A i \in 1..Len(file.vars) :
              (IF e.act = "write_dataset" THEN \A q \in 1..e.args.nk : Keys[q] # file.vars[i].key ELSE file.vars[i].key # e.args.k) =>
              \E j \in 1..Len(file'.vars) : file'.vars[j] = file.vars[i]
        /\ SubSeq(file'.dims, 1, Len(file.dims)) = file.dims /\ file'.format = file.format
        \* the file's own metadata stay, unless a Dataset that has metadata is appended
        /\ (file'.gattrs = file.gattrs \/ (e.act = "write_dataset" /\ e.args.g # 0 /\ file'.gattrs = e.args.g))]_allvars
\* a failed write leaves the file as it was
FailUnchanged == [][(Len(hist') > Len(hist) /\ ~hist'[Len(hist')].ok) => file' = file]_allvars
=============================================================================
