---------------------------- MODULE TraceNcStore -----------------------------
(***************************************************************************)
(* Trace validation for C19: write sequences recorded from the real        *)
(* dimarray.io.nc (driven with random arrays, not the machine's pool) are  *)
(* accepted only if every step is the corresponding NcStore action with    *)
(* the logged arrays, has the logged outcome, and leads to a file content  *)
(* equal to what read_nc returned after the step.                          *)
(***************************************************************************)
EXTENDS NcStore, IOUtils
Traces == ndJsonDeserialize(IOEnv.TRACE_FILE)
VARIABLES tid, l
tvars == <<file, hist, tid, l>>
TInit == Init /\ tid \in 1..Len(Traces) /\ l = 1
Ev == Traces[tid].events[l]
Match(e) ==
  CASE e.act = "write_dataset" -> WriteDatasetA(e.args.arrs, <<>>, e.args.fmt, e.args.g, e.args.mode)
    [] e.act = "write_array"   -> WriteArrayA(e.args.arrs[1], <<>>, e.args.k, e.args.mode, e.args.fmt)
    [] e.act = "open_setitem"  -> OpenSetItemA(e.args.arrs[1], <<>>, e.args.k)
\* the logged file content: dtype kinds only ("j" and "i" both read back as integers)
Norm(f) == [f EXCEPT !.format = "", !.vars = [i \in 1..Len(f.vars) |-> [f.vars[i] EXCEPT !.arr.dtype = IF @ = "j" THEN "i" ELSE @]]]
Agrees == hist'[Len(hist')].ok = Ev.ok /\ (IF file'.present THEN Norm(file') = Ev.post ELSE ~Ev.post.present)
TNext ==
  /\ l >= 1 /\ l <= Len(Traces[tid].events)
  /\ Match(Ev) /\ tid' = tid
  /\ IF Agrees THEN l' = l + 1 /\ PrintT(<<"T", tid, l>>)
     ELSE l' = 0 /\ PrintT(<<"X", tid, l, ToJson([ok |-> hist'[Len(hist')].ok, post |-> Norm(file')])>>)
TSpec == TInit /\ [][TNext]_tvars
=============================================================================
