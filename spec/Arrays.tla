------------------------------- MODULE Arrays -------------------------------
(***************************************************************************)
(* Abstract labelled arrays and the reference semantics of the public      *)
(* dimarray operations on them.                                            *)
(*                                                                         *)
(*   array == [dims   : Seq(STRING)        dimension names                 *)
(*             kinds  : Seq({"i","f","s"}) label kind per axis             *)
(*             labs   : Seq(Seq(Int))      labels per axis                 *)
(*             aattrs : Seq(Int)           axis metadata id (0 = empty)    *)
(*             cells  : Seq(Cell)          row-major (C order)             *)
(*             dtype  : {"b","i","f","O"}                                  *)
(*             attrs  : Int]               array metadata id (0 = empty)   *)
(*                                                                         *)
(* A cell is an integer: -1 is NaN / missing, v >= 0 identifies the input  *)
(* element the cell was copied from.  Operations that compute (arithmetic, *)
(* reductions, interpolation) return *terms* over cells instead (pairs,    *)
(* fibres, weights); NumPy evaluates them in the harness.                  *)
(***************************************************************************)
EXTENDS Labels

NaN == -1

RECURSIVE Prod(_)
Prod(s) == IF s = <<>> THEN 1 ELSE Head(s) * Prod(Tail(s))

\* all coordinate tuples (1-based) of an array of that shape, in row-major order
RECURSIVE Coords(_)
Coords(shape) ==
  IF shape = <<>> THEN << <<>> >>
  ELSE LET rest == Coords(Tail(shape)) IN
       FlattenSeq([i \in 1..Head(shape) |-> [j \in 1..Len(rest) |-> <<i>> \o rest[j]]])

ShapeOf(labs) == [i \in 1..Len(labs) |-> Len(labs[i])]
Shape(a) == ShapeOf(a.labs)
NDim(a)  == Len(a.dims)

RECURSIVE FlatOff(_, _)
FlatOff(shape, c) == IF shape = <<>> THEN 0
                     ELSE (Head(c) - 1) * Prod(Tail(shape)) + FlatOff(Tail(shape), Tail(c))
At(a, c) == a.cells[FlatOff(Shape(a), c) + 1]

\* constructor: F maps a coordinate tuple of the new array to its cell
Mk(dims, kinds, labs, aattrs, dtype, attrs, F(_)) ==
  LET cs == Coords(ShapeOf(labs))
  IN [dims |-> dims, kinds |-> kinds, labs |-> labs, aattrs |-> aattrs,
      dtype |-> dtype, attrs |-> attrs, cells |-> [k \in 1..Len(cs) |-> F(cs[k])]]

\* an input array whose cells are the identifiers base+1 .. base+size
Fresh(dims, kinds, labs, aattrs, dtype, attrs, base) ==
  [dims |-> dims, kinds |-> kinds, labs |-> labs, aattrs |-> aattrs, dtype |-> dtype, attrs |-> attrs,
   cells |-> [k \in 1..Prod(ShapeOf(labs)) |-> base + k]]

DimPos(a, name) == CHOOSE i \in 1..Len(a.dims) : a.dims[i] = name
HasDim(a, name) == \E i \in 1..Len(a.dims) : a.dims[i] = name
IsNumericKind(k) == k \in {"i", "f"}

WellFormed(a) ==
  /\ Len(a.labs) = Len(a.dims) /\ Len(a.kinds) = Len(a.dims) /\ Len(a.aattrs) = Len(a.dims)
  /\ NoDup(a.dims)
  /\ \A i \in 1..Len(a.dims) : a.dims[i] # ""
  /\ Len(a.cells) = Prod(Shape(a))

Ok(v)   == [ok |-> TRUE, val |-> v, err |-> ""]
Err(e)  == [ok |-> FALSE, val |-> <<>>, err |-> e]

(***************************************************************************)
(* Index specifications (one per dimension)                                *)
(*   [k |-> "all" | "sc" | "li" | "mk" | "sl", v, l, m, lo, hi, st]        *)
(* Unused fields are defaulted so that all specs have the same shape.      *)
(***************************************************************************)
IxAll        == [k |-> "all", v |-> 0, l |-> <<>>, m |-> <<>>, lo |-> <<>>, hi |-> <<>>, st |-> <<>>]
IxSc(v)      == [k |-> "sc",  v |-> v, l |-> <<>>, m |-> <<>>, lo |-> <<>>, hi |-> <<>>, st |-> <<>>]
IxLi(l)      == [k |-> "li",  v |-> 0, l |-> l,    m |-> <<>>, lo |-> <<>>, hi |-> <<>>, st |-> <<>>]
IxMk(m)      == [k |-> "mk",  v |-> 0, l |-> <<>>, m |-> m,    lo |-> <<>>, hi |-> <<>>, st |-> <<>>]
IxSl(lo, hi, st) == [k |-> "sl", v |-> 0, l |-> <<>>, m |-> <<>>, lo |-> lo, hi |-> hi, st |-> st]

MaskPos(m) == SelectSeq(Idx(m), LAMBDA i : m[i])

\* resolution of one dimension: [ok, drop, pos]
Res(ok, drop, pos) == [ok |-> ok, drop |-> drop, pos |-> pos]

ResolveLabel(L, numeric, ix, tol) ==
  CASE ix.k = "all" -> Res(TRUE, FALSE, Idx(L))
    [] ix.k = "sc"  -> LET p == LocateOne(L, ix.v, IF numeric THEN tol ELSE <<>>)
                       IN Res(p # <<>>, TRUE, p)
    [] ix.k = "li"  -> LET ps == [j \in 1..Len(ix.l) |-> LocateOne(L, ix.l[j], IF numeric THEN tol ELSE <<>>)]
                       IN IF \E j \in 1..Len(ps) : ps[j] = <<>> THEN Res(FALSE, FALSE, <<>>)
                          ELSE Res(TRUE, FALSE, [j \in 1..Len(ps) |-> ps[j][1]])
    [] ix.k = "mk"  -> Res(Len(ix.m) = Len(L), FALSE, MaskPos(ix.m))
    [] ix.k = "sl"  -> LET r == LocSlice(L, numeric, ix.lo, ix.hi, ix.st) IN Res(r.ok, FALSE, r.pos)

ResolvePos(n, ix) ==
  CASE ix.k = "all" -> Res(TRUE, FALSE, [i \in 1..n |-> i])
    [] ix.k = "sc"  -> LET p == PosOne(n, ix.v) IN Res(p # <<>>, TRUE, p)
    [] ix.k = "li"  -> LET ps == [j \in 1..Len(ix.l) |-> PosOne(n, ix.l[j])]
                       IN IF \E j \in 1..Len(ps) : ps[j] = <<>> THEN Res(FALSE, FALSE, <<>>)
                          ELSE Res(TRUE, FALSE, [j \in 1..Len(ps) |-> ps[j][1]])
    [] ix.k = "mk"  -> Res(Len(ix.m) = n, FALSE, MaskPos(ix.m))
    [] ix.k = "sl"  -> Res(TRUE, FALSE, PosSlice(n, ix.lo, ix.hi, ix.st))

\* per-dimension resolution of a full index tuple; mode = "label" | "position"
ResolveIndex(a, idxs, mode, tol) ==
  [i \in 1..NDim(a) |->
     IF mode = "position" THEN ResolvePos(Len(a.labs[i]), idxs[i])
     ELSE ResolveLabel(a.labs[i], IsNumericKind(a.kinds[i]), idxs[i], tol)]

\* source coordinate of result coordinate c under resolution r
SrcCoord(r, c) ==
  LET rank(i) == Cardinality({k \in 1..i : ~r[k].drop})
  IN [i \in 1..Len(r) |-> IF r[i].drop THEN r[i].pos[1] ELSE r[i].pos[c[rank(i)]]]

(* ---------- C01 / C02: reading ---------- *)
Take(a, idxs, mode, tol) ==
  LET r == ResolveIndex(a, idxs, mode, tol)
  IN IF \E i \in 1..Len(r) : ~r[i].ok THEN Err("IndexError")
     ELSE LET kept == SelectSeq(Idx(a.dims), LAMBDA i : ~r[i].drop)
          IN Ok(Mk(Gather(a.dims, kept), Gather(a.kinds, kept),
                   [j \in 1..Len(kept) |-> Gather(a.labs[kept[j]], r[kept[j]].pos)],
                   Gather(a.aattrs, kept), a.dtype, a.attrs,
                   LAMBDA c : At(a, SrcCoord(r, c))))

(* ---------- C03: writing ---------- *)
\* rhs: [shape |-> <<..>>, cells |-> <<..>>, kind |-> "b"|"i"|"f"|"O"]; shape <<>> = scalar.
\* The right-hand side broadcasts NumPy-style (aligned on the trailing
\* dimensions) against the shape of the selection (dropped dims removed).
BcastCell(rhs, selshape, c) ==
  LET n == Len(selshape)
      m == Len(rhs.shape)
      rc == [j \in 1..m |-> IF rhs.shape[j] = 1 THEN 1 ELSE c[n - m + j]]
  IN rhs.cells[FlatOff(rhs.shape, rc) + 1]

\* dtype kinds after assigning values of kind k into an array of kind d
\* cast = FALSE : unchanged;  cast = TRUE : any kind that loses nothing
Lossless(d, k) ==
  CASE d = k -> {d}
    [] d = "O" -> {"O"}
    [] d = "f" /\ k = "i" -> {"f", "O"}
    [] d \in {"f", "i"} /\ k = "b" -> {"O"}          \* a boolean written into numeric data must stay a boolean
    [] d = "i" /\ k = "f" -> {"f", "O"}
    [] d = "b" /\ k \in {"i"} -> {"i", "f", "O"}
    [] d = "b" /\ k \in {"f"} -> {"f", "O"}
    [] OTHER -> {"O"}

Put(a, idxs, mode, tol, rhs) ==
  LET r == ResolveIndex(a, idxs, mode, tol)
  IN IF \E i \in 1..Len(r) : ~r[i].ok THEN Err("IndexError")
     ELSE LET kept == SelectSeq(Idx(a.dims), LAMBDA i : ~r[i].drop)
              selshape == [j \in 1..Len(kept) |-> Len(r[kept[j]].pos)]
              sel == Coords(selshape)
              \* last writer wins when positions repeat (scalar rhs only in generated scenarios)
              writer(c) == {k \in 1..Len(sel) : SrcCoord(r, sel[k]) = c}
              cs == Coords(Shape(a))
          IN Ok([a EXCEPT !.cells = [k \in 1..Len(cs) |->
                    IF writer(cs[k]) = {} THEN a.cells[k]
                    ELSE BcastCell(rhs, selshape, sel[CHOOSE w \in writer(cs[k]) : \A w2 \in writer(cs[k]) : w2 <= w])]])

(* ---------- C01 / C03: pointwise ("broadcast=True", NumPy-style) selection ---------- *)
\* list and mask indices of one common length n pair up element by element, scalars are repeated for every point,
\* full slices and label slices keep sampling their dimension independently
IsPt(r, idxs, i) == ~r[i].drop /\ idxs[i].k \in {"li", "mk"}
PtDims(r, idxs) == {i \in 1..Len(r) : IsPt(r, idxs, i)}
PointCount(r, idxs) == IF PtDims(r, idxs) = {} THEN 0 ELSE Len(r[CHOOSE i \in PtDims(r, idxs) : TRUE].pos)
PointsOK(r, idxs) == \A i, j \in PtDims(r, idxs) : Len(r[i].pos) = Len(r[j].pos)
\* does point p address source coordinate c ?
Hits(r, idxs, c, p) ==
  \A i \in 1..Len(r) : IF IsPt(r, idxs, i) THEN r[i].pos[p] = c[i] ELSE \E j \in 1..Len(r[i].pos) : r[i].pos[j] = c[i]
\* source coordinate of point p (only when every dimension is a list, mask or scalar)
PointCoord(r, idxs, p) == [i \in 1..Len(r) |-> IF IsPt(r, idxs, i) THEN r[i].pos[p] ELSE r[i].pos[1]]
\* rhs: scalar, or 1-d with one value per point (last writer wins)
PutPoints(a, idxs, mode, tol, rhs) ==
  LET r == ResolveIndex(a, idxs, mode, tol)
  IN IF \E i \in 1..Len(r) : ~r[i].ok THEN Err("IndexError")
     ELSE IF ~PointsOK(r, idxs) THEN Err("ShapeMismatch")
     ELSE IF PtDims(r, idxs) = {} THEN Put(a, idxs, mode, tol, rhs)
     ELSE LET n == PointCount(r, idxs)
              cs == Coords(Shape(a))
              W(c) == {p \in 1..n : Hits(r, idxs, c, p)}
          IN Ok([a EXCEPT !.cells = [k \in 1..Len(cs) |->
                    IF W(cs[k]) = {} THEN a.cells[k]
                    ELSE IF rhs.shape = <<>> THEN rhs.cells[1]
                    ELSE rhs.cells[CHOOSE w \in W(cs[k]) : \A w2 \in W(cs[k]) : w2 <= w]]])
\* the values read by the same pointwise index, one per point (no slice dimension)
TakePoints(a, idxs, mode, tol) ==
  LET r == ResolveIndex(a, idxs, mode, tol)
  IN IF \E i \in 1..Len(r) : ~r[i].ok THEN Err("IndexError")
     ELSE IF ~PointsOK(r, idxs) THEN Err("ShapeMismatch")
     ELSE Ok([p \in 1..(IF PtDims(r, idxs) = {} THEN 1 ELSE PointCount(r, idxs)) |-> At(a, PointCoord(r, idxs, p))])

\* the whole array read by a pointwise index (getaxes_broadcast / NumPy's advanced-indexing placement rule):
\* list / mask dimensions (P) pair up into ONE "broadcast" axis labelled by the tuples of their labels (named "d1,d2");
\* scalars are broadcast with them (B = P + scalars) but contribute neither to the name nor to the tuples;
\* the broadcast axis stands where B stood when B is contiguous, first otherwise; sliced dimensions keep their order.
\* srcdims[j] = source dimensions behind result dimension j; labs[j][t] = tuple of labels (1-tuples on ordinary axes).
TakePointsArr(a, idxs, mode, tol) ==
  LET r == ResolveIndex(a, idxs, mode, tol)
  IN IF \E i \in 1..Len(r) : ~r[i].ok THEN Err("IndexError")
     ELSE IF ~PointsOK(r, idxs) THEN Err("ShapeMismatch")
     ELSE IF PtDims(r, idxs) = {} THEN Err("NotPointwise")
     ELSE LET P == PtDims(r, idxs)
              B == P \cup {i \in 1..Len(r) : r[i].drop}
              n == PointCount(r, idxs)
              Pseq == SelectSeq(Idx(a.dims), LAMBDA i : i \in P)
              Sseq == SelectSeq(Idx(a.dims), LAMBDA i : i \notin B)
              lo == CHOOSE i \in B : \A j \in B : i <= j
              hi == CHOOSE i \in B : \A j \in B : i >= j
              ins == IF hi - lo + 1 = Cardinality(B) THEN lo - 1 ELSE 0
              nd == Len(Sseq) + 1
              srcdims == [j \in 1..nd |-> IF j = ins + 1 THEN Pseq ELSE <<Sseq[IF j <= ins THEN j ELSE j - 1]>>]
              labs == [j \in 1..nd |-> IF j = ins + 1
                         THEN [p \in 1..n |-> [q \in 1..Len(Pseq) |-> a.labs[Pseq[q]][r[Pseq[q]].pos[p]]]]
                         ELSE LET d == srcdims[j][1] IN [t \in 1..Len(r[d].pos) |-> <<a.labs[d][r[d].pos[t]]>>]]
              jof(d) == CHOOSE j \in 1..nd : j # ins + 1 /\ srcdims[j][1] = d
              src(c) == [i \in 1..Len(r) |-> IF i \in P THEN r[i].pos[c[ins + 1]]
                                            ELSE IF r[i].drop THEN r[i].pos[1] ELSE r[i].pos[c[jof(i)]]]
              cs == Coords(ShapeOf(labs))
          IN Ok([srcdims |-> srcdims, ins |-> ins, labs |-> labs, cells |-> [k \in 1..Len(cs) |-> At(a, src(cs[k]))]])

(* ---------- C10: rearranging dimensions ---------- *)
\* perm[j] = position in a of the j-th dimension of the result
Transpose(a, perm) ==
  LET inv(i) == CHOOSE j \in 1..Len(perm) : perm[j] = i
  IN Mk(Gather(a.dims, perm), Gather(a.kinds, perm), Gather(a.labs, perm), Gather(a.aattrs, perm),
        a.dtype, a.attrs, LAMBDA c : At(a, [i \in 1..Len(perm) |-> c[inv(i)]]))


\* InsertAt(s, pos, x) and RemoveAt(s, pos) come from SequencesExt (x becomes element pos)

SwapAxes(a, i, j) == Transpose(a, [k \in 1..NDim(a) |-> IF k = i THEN j ELSE IF k = j THEN i ELSE k])

\* numpy.rollaxis: axis (1-based here) is moved so that it lies before 0-based position start (0..n)
RollPerm(n, axis, start) ==
  LET st == IF start > axis - 1 THEN start - 1 ELSE start
  IN InsertAt(RemoveAt([k \in 1..n |-> k], axis), st + 1, axis)
RollAxis(a, axis, start) == Transpose(a, RollPerm(NDim(a), axis, start))

\* newaxis: pos0 is the 0-based insertion position (0..n); vals = <<>>: a single label None (kind "n", label 0)
NewAxis(a, name, pos0, vals) ==
  LET p == pos0 + 1
  IN Mk(InsertAt(a.dims, p, name), InsertAt(a.kinds, p, IF vals = <<>> THEN "n" ELSE "i"),
        InsertAt(a.labs, p, IF vals = <<>> THEN <<0>> ELSE vals), InsertAt(a.aattrs, p, 0),
        a.dtype, a.attrs, LAMBDA c : At(a, RemoveAt(c, p)))

\* squeeze: which = 0 removes every singleton dimension, which = i only dimension i (if it is a singleton)
Squeeze(a, which) ==
  LET kept == SelectSeq(Idx(a.dims), LAMBDA i : ~(Len(a.labs[i]) = 1 /\ (which = 0 \/ which = i)))
      rank(i) == Cardinality({k \in 1..i : k \in Rng(kept)})
  IN Mk(Gather(a.dims, kept), Gather(a.kinds, kept), Gather(a.labs, kept), Gather(a.aattrs, kept),
        a.dtype, a.attrs, LAMBDA c : At(a, [i \in 1..NDim(a) |-> IF i \in Rng(kept) THEN c[rank(i)] ELSE 1]))

\* repeat a singleton dimension d along the labels vals
Repeat(a, d, vals, kind, aat) ==
  Mk(a.dims, [a.kinds EXCEPT ![d] = kind], [a.labs EXCEPT ![d] = vals], [a.aattrs EXCEPT ![d] = aat],
     a.dtype, a.attrs, LAMBDA c : At(a, [c EXCEPT ![d] = 1]))

\* broadcast onto target axes (tdims, tkinds, tlabs, taattrs); requires dims(a) \subseteq tdims and that
\* non-singleton dimensions of a carry the target's labels
Broadcast(a, tdims, tkinds, tlabs, taattrs) ==
  LET has(j) == HasDim(a, tdims[j])
      src(j) == DimPos(a, tdims[j])
      own(j) == has(j) /\ (Len(a.labs[src(j)]) > 1 \/ Len(tlabs[j]) = 1)      \* keeps its own axis
  IN Mk(tdims,
        [j \in 1..Len(tdims) |-> IF own(j) THEN a.kinds[src(j)] ELSE tkinds[j]],
        [j \in 1..Len(tdims) |-> IF own(j) THEN a.labs[src(j)] ELSE tlabs[j]],
        [j \in 1..Len(tdims) |-> IF own(j) THEN a.aattrs[src(j)] ELSE taattrs[j]],
        a.dtype, a.attrs,
        LAMBDA c : At(a, [i \in 1..NDim(a) |->
                            IF Len(a.labs[i]) = 1 THEN 1
                            ELSE c[CHOOSE j \in 1..Len(tdims) : tdims[j] = a.dims[i]]]))

\* dimension names of several arrays in order of first appearance
RECURSIVE AllDims(_)
AllDims(arrs) == IF arrs = <<>> THEN <<>>
                 ELSE LET rest == AllDims(SubSeq(arrs, 1, Len(arrs) - 1))
                          last == arrs[Len(arrs)]
                      IN rest \o SelectSeq(last.dims, LAMBDA d : \A k \in 1..Len(rest) : rest[k] # d)
\* the array (index) that provides the common axis of dimension d: first with size > 1, else first having it
Provider(arrs, d) ==
  LET having == SelectSeq(Idx(arrs), LAMBDA i : HasDim(arrs[i], d))
      big == SelectSeq(having, LAMBDA i : Len(arrs[i].labs[DimPos(arrs[i], d)]) > 1)
  IN IF big # <<>> THEN big[1] ELSE having[1]
BroadcastArrays(arrs) ==
  LET dims == AllDims(arrs)
      prov(j) == arrs[Provider(arrs, dims[j])]
      pp(j) == DimPos(prov(j), dims[j])
      tk == [j \in 1..Len(dims) |-> prov(j).kinds[pp(j)]]
      tl == [j \in 1..Len(dims) |-> prov(j).labs[pp(j)]]
      ta == [j \in 1..Len(dims) |-> prov(j).aattrs[pp(j)]]
  IN [i \in 1..Len(arrs) |-> Broadcast(arrs[i], dims, tk, tl, ta)]


(* ---------- C07: reindexing ---------- *)
FillId == 777       \* identifier of a numeric fill value
\* fill: NaN or FillId; fkind: kind of the fill value ("f" for NaN); method: "none" | "left" | "right"
Reindex(a, d, new, newkind, fill, fkind, raise, method) ==
  LET L == a.labs[d]
      pos == ReindexPos(L, new, method)
      missing == \E j \in 1..Len(new) : pos[j] = 0
  IN IF Len(L) = 0 /\ method # "none" /\ Len(new) > 0 THEN Err("unspecified")
     ELSE IF raise /\ missing THEN Err("IndexError")
     ELSE Ok(Mk(a.dims, [a.kinds EXCEPT ![d] = newkind], [a.labs EXCEPT ![d] = new], a.aattrs,
                IF missing /\ fill = NaN /\ a.dtype \in {"i", "b"} THEN "f"
                ELSE IF missing /\ a.dtype = "i" /\ fkind = "f" THEN "f" ELSE a.dtype,
                a.attrs,
                LAMBDA c : IF pos[c[d]] = 0 THEN fill ELSE At(a, [c EXCEPT ![d] = pos[c[d]]])))

\* reindex_like: the same rule applied to every dimension of a shared with the template, in a's order
RECURSIVE ReindexLikeFrom(_, _, _)
ReindexLikeFrom(a, t, i) ==
  IF i > NDim(a) THEN a
  ELSE IF HasDim(t, a.dims[i])
       THEN ReindexLikeFrom(Reindex(a, i, t.labs[DimPos(t, a.dims[i])], t.kinds[DimPos(t, a.dims[i])],
                                    NaN, "f", FALSE, "none").val, t, i + 1)
       ELSE ReindexLikeFrom(a, t, i + 1)
ReindexLike(a, t) == ReindexLikeFrom(a, t, 1)


(* ---------- C06: align ---------- *)
SortSet(S) == SetToSortSeq(S, LAMBDA x, y : x < y)
\* labels of several sequences in order of first appearance, without duplicates
RECURSIVE FirstAppearance(_)
FirstAppearance(Ls) == IF Ls = <<>> THEN <<>>
                       ELSE LET rest == FirstAppearance(SubSeq(Ls, 1, Len(Ls) - 1))
                            IN rest \o SelectSeq(Ls[Len(Ls)], LAMBDA v : \A k \in 1..Len(rest) : rest[k] # v)
\* common axis of the label sequences Ls (those of the arrays that have the dimension):
\* labs = one admissible result, free = TRUE when the property leaves the order of the labels open
CommonAxis(Ls, join, sort) ==
  LET set == IF join = "outer" THEN UnionSet(Ls) ELSE InterSet(Ls)
      ne  == IF join = "outer" THEN SelectSeq(Ls, LAMBDA L : Len(L) > 0) ELSE Ls
      witness == IF join = "outer" THEN FirstAppearance(Ls) ELSE SelectSeq(Ls[1], LAMBDA v : v \in set)
  IN IF sort THEN [labs |-> SortSet(set), free |-> FALSE]
     ELSE IF Len(ne) > 0 /\ \A i \in 1..Len(ne) : ne[i] = ne[1] THEN [labs |-> ne[1], free |-> FALSE]
     \* axes of fewer than two labels have no direction of their own: they are sorted in whichever direction the others are
     \* (outer join; an inner join keeps the first input's order, so there every input must have a direction)
     ELSE IF join = "outer" /\ (\E i \in 1..Len(Ls) : Len(Ls[i]) >= 2) /\ (\A i \in 1..Len(Ls) : IsInc(Ls[i])) THEN [labs |-> SortSet(set), free |-> FALSE]
     ELSE IF join = "outer" /\ (\E i \in 1..Len(Ls) : Len(Ls[i]) >= 2) /\ (\A i \in 1..Len(Ls) : IsDec(Ls[i])) THEN [labs |-> Rev(SortSet(set)), free |-> FALSE]
     ELSE IF \A i \in 1..Len(Ls) : Len(Ls[i]) >= 2 /\ IsInc(Ls[i]) THEN [labs |-> SortSet(set), free |-> FALSE]
     ELSE IF \A i \in 1..Len(Ls) : Len(Ls[i]) >= 2 /\ IsDec(Ls[i]) THEN [labs |-> Rev(SortSet(set)), free |-> FALSE]
     ELSE [labs |-> witness, free |-> TRUE]

\* reindex array a on every dimension listed in dims (names) that it has, onto the common axes
RECURSIVE AlignOne(_, _, _, _)
AlignOne(a, dims, common, k) ==
  IF k > Len(dims) THEN a
  ELSE IF HasDim(a, dims[k])
       THEN AlignOne(Reindex(a, DimPos(a, dims[k]), common[k].labs, a.kinds[DimPos(a, dims[k])], NaN, "f", FALSE, "none").val,
                     dims, common, k + 1)
       ELSE AlignOne(a, dims, common, k + 1)

\* axis = <<>> (all dimensions) or <<d>>; result: [arrs |-> aligned arrays, free |-> dimension names whose label order is open]
Align(arrs, join, sort, axis) ==
  LET dims == IF axis = <<>> THEN AllDims(arrs) ELSE axis
      having(d) == SelectSeq(Idx(arrs), LAMBDA i : HasDim(arrs[i], d))
      common == [k \in 1..Len(dims) |->
                   CommonAxis([j \in 1..Len(having(dims[k])) |-> arrs[having(dims[k])[j]].labs[DimPos(arrs[having(dims[k])[j]], dims[k])]],
                              join, sort)]
  IN [arrs |-> [i \in 1..Len(arrs) |-> AlignOne(arrs[i], dims, common, 1)],
      free |-> SelectSeq(dims, LAMBDA d : common[CHOOSE k \in 1..Len(dims) : dims[k] = d].free)]


(* ---------- C04: arithmetic between two arrays ---------- *)
\* result cells are pairs <<cell of a, cell of b>> (either may be NaN); NumPy evaluates the operator in the harness
BinOp(a, b) ==
  LET al == Align(<<a, b>>, "outer", FALSE, <<>>)
      a2 == al.arrs[1]
      b2 == al.arrs[2]
      newb == SelectSeq(Idx(b2.dims), LAMBDA j : ~HasDim(a2, b2.dims[j]))
      dims == a2.dims \o Gather(b2.dims, newb)
      pa(x) == [i \in 1..NDim(a2) |-> x[i]]
      pb(x) == [j \in 1..NDim(b2) |-> x[CHOOSE k \in 1..Len(dims) : dims[k] = b2.dims[j]]]
  IN [arr |-> Mk(dims, a2.kinds \o Gather(b2.kinds, newb), a2.labs \o Gather(b2.labs, newb),
                 [k \in 1..Len(dims) |-> 0], "f", 0, LAMBDA x : <<At(a2, pa(x)), At(b2, pb(x))>>),
      free |-> al.free,
      filled |-> <<NaN \in Rng(a2.cells), NaN \in Rng(b2.cells)>>]


(* ---------- C08: reductions ---------- *)
\* red: sequence of (1-based) dimension positions reduced at once, in the listed order; result cells are terms
\* [fib |-> cells fed to the NumPy function, in fibre order; nan |-> the result is NaN whatever the function].
\* Fibre order = row-major over the listed dimensions in the listed order.
Reduce(a, red, skipna) ==
  LET kept == SelectSeq(Idx(a.dims), LAMBDA i : \A k \in 1..Len(red) : red[k] # i)
      rshape == [k \in 1..Len(red) |-> Len(a.labs[red[k]])]
      rc == Coords(rshape)
      rank(i) == Cardinality({k \in 1..i : k \in Rng(kept)})
      posin(i) == CHOOSE k \in 1..Len(red) : red[k] = i
      fibre(c) == [q \in 1..Len(rc) |-> At(a, [i \in 1..NDim(a) |-> IF i \in Rng(kept) THEN c[rank(i)] ELSE rc[q][posin(i)]])]
      term(c) == LET f == fibre(c) IN
                 IF skipna THEN [fib |-> SelectSeq(f, LAMBDA x : x # NaN), nan |-> FALSE]
                 ELSE [fib |-> f, nan |-> \E q \in 1..Len(f) : f[q] = NaN]
  IN Mk(Gather(a.dims, kept), Gather(a.kinds, kept), Gather(a.labs, kept), Gather(a.aattrs, kept), a.dtype, a.attrs, term)


(* ---------- C09: cumulative, difference, arg-extremum ---------- *)
\* cumulative operations: axes unchanged, the cell at position p along d is fed by the fibre prefix 1..p
Cum(a, d) ==
  Mk(a.dims, a.kinds, a.labs, a.aattrs, a.dtype, a.attrs,
     LAMBDA c : [fib |-> [q \in 1..c[d] |-> At(a, [c EXCEPT ![d] = q])], nan |-> FALSE])

RECURSIVE DiffLabelsN(_, _, _)
DiffLabelsN(L, scheme, n) == IF n = 0 THEN L ELSE DiffLabelsN(DiffLabels(L, scheme), scheme, n - 1)
\* n-th difference along d: the output cell j is fed by the n+1 consecutive cells j..j+n (NumPy evaluates the
\* n-th difference of that window); keepaxis pads n missing cells (empty window) on the side the scheme drops
Diff(a, d, n, scheme, keepaxis) ==
  LET L == a.labs[d]
      m == IF Len(L) >= n THEN Len(L) - n ELSE 0                 \* number of differences
      newL == IF keepaxis THEN L ELSE DiffLabelsN(L, scheme, n)
      off == IF keepaxis /\ scheme = "backward" THEN n ELSE 0    \* leading padding
      win(c) == LET j == c[d] - off IN
                IF j < 1 \/ j > m THEN [fib |-> <<>>, nan |-> TRUE]
                ELSE [fib |-> [q \in 1..(n + 1) |-> At(a, [c EXCEPT ![d] = j + q - 1])], nan |-> FALSE]
  IN Mk(a.dims, [a.kinds EXCEPT ![d] = IF scheme = "centered" THEN "f" ELSE a.kinds[d]], [a.labs EXCEPT ![d] = newL],
        a.aattrs, a.dtype, a.attrs, win)

\* position (1-based) of the extremum in a fibre: a missing cell wins (NumPy), otherwise the first extreme value
ArgPos(f, which) ==
  IF \E q \in 1..Len(f) : f[q] = NaN THEN CHOOSE q \in 1..Len(f) : f[q] = NaN /\ \A r \in 1..q-1 : f[r] # NaN
  ELSE CHOOSE q \in 1..Len(f) :
         /\ \A r \in 1..Len(f) : IF which = "min" THEN f[q] <= f[r] ELSE f[q] >= f[r]
         /\ \A r \in 1..q-1 : f[r] # f[q]
\* argmin / argmax along dimension d: an array of *labels* of d over the remaining axes
ArgExtAxis(a, d, which) ==
  LET kept == SelectSeq(Idx(a.dims), LAMBDA i : i # d)
      rank(i) == Cardinality({k \in 1..i : k # d})
      fibre(c) == [q \in 1..Len(a.labs[d]) |-> At(a, [i \in 1..NDim(a) |-> IF i = d THEN q ELSE c[rank(i)]])]
  IN Mk(Gather(a.dims, kept), Gather(a.kinds, kept), Gather(a.labs, kept), Gather(a.aattrs, kept), a.kinds[d], a.attrs,
        LAMBDA c : a.labs[d][ArgPos(fibre(c), which)])
\* whole-array argmin / argmax: the tuple of labels of the first extremum in C order
ArgExtAll(a, which) ==
  LET k == ArgPos(a.cells, which)
      c == Coords(Shape(a))[k]
  IN [i \in 1..NDim(a) |-> a.labs[i][c[i]]]

IsPerm(p, n) == Len(p) = n /\ Rng(p) = 1..n
=============================================================================
