----------------------------- MODULE AttrRouting -----------------------------
(***************************************************************************)
(* C16 (part 1): attribute routing on DimArray, Dataset and Axis.          *)
(* One object; names are represented by their class:                       *)
(*   "pub"  public name that is neither a class member nor a dimension     *)
(*   "und"  name starting with an underscore                               *)
(*   "ro"   class member that is a read-only property                      *)
(*   "meth" class member that is a method                                  *)
(*   "dim"  name equal to one of the object's dimensions (not for Axis)    *)
(* State: attrs (the metadata dictionary), inst (instance dictionary),     *)
(* lab (the labels of the dimension "dim", as a value id).                 *)
(* Values are small integers; 0 = absent.                                  *)
(***************************************************************************)
EXTENDS Integers, Sequences, TLC, Json

CONSTANTS Names, MaxDepth, Emit
VARIABLES attrs, inst, lab, hist
state == <<attrs, inst, lab>>
allvars == <<attrs, inst, lab, hist>>
Vals == {1, 2}

Ok(v) == [ok |-> TRUE, v |-> v, err |-> ""]
Err == [ok |-> FALSE, v |-> 0, err |-> "AttributeError"]
Member == -5            \* "the class member itself" (never a metadata value)

Record(act, n, v, res) == hist' = Append(hist, [act |-> act, n |-> n, v |-> v, res |-> res,
                                               post |-> [attrs |-> attrs', inst |-> inst', lab |-> lab']])
Bound == Len(hist) < MaxDepth
Init == attrs = [n \in Names |-> 0] /\ inst = [n \in Names |-> 0] /\ lab = 10 /\ hist = <<>>

\* obj.n = v
Set(n, v) ==
  /\ Bound
  /\ CASE n = "pub"  -> attrs' = [attrs EXCEPT ![n] = v] /\ UNCHANGED <<inst, lab>> /\ Record("set", n, v, Ok(0))
       [] n = "und"  -> inst' = [inst EXCEPT ![n] = v] /\ UNCHANGED <<attrs, lab>> /\ Record("set", n, v, Ok(0))
       [] n = "meth" -> inst' = [inst EXCEPT ![n] = v] /\ UNCHANGED <<attrs, lab>> /\ Record("set", n, v, Ok(0))
       [] n = "ro"   -> UNCHANGED state /\ Record("set", n, v, Err)
       [] n = "dim"  -> lab' = 10 + v /\ UNCHANGED <<attrs, inst>> /\ Record("set", n, v, Ok(0))
\* obj.n
Get(n) ==
  /\ Bound /\ UNCHANGED state
  /\ CASE n = "pub"  -> Record("get", n, 0, IF attrs[n] # 0 THEN Ok(attrs[n]) ELSE Err)
       [] n = "und"  -> Record("get", n, 0, IF inst[n] # 0 THEN Ok(inst[n]) ELSE Err)
       [] n = "meth" -> Record("get", n, 0, IF inst[n] # 0 THEN Ok(inst[n]) ELSE Ok(Member))
       [] n = "ro"   -> Record("get", n, 0, Ok(Member))
       [] n = "dim"  -> Record("get", n, 0, Ok(lab))
\* del obj.n
Del(n) ==
  /\ Bound
  /\ CASE n = "pub"  -> IF attrs[n] # 0 THEN attrs' = [attrs EXCEPT ![n] = 0] /\ UNCHANGED <<inst, lab>> /\ Record("del", n, 0, Ok(0))
                        ELSE UNCHANGED state /\ Record("del", n, 0, Err)
       [] n \in {"und", "meth"} -> IF inst[n] # 0 THEN inst' = [inst EXCEPT ![n] = 0] /\ UNCHANGED <<attrs, lab>> /\ Record("del", n, 0, Ok(0))
                                   ELSE UNCHANGED state /\ Record("del", n, 0, Err)
       [] n = "ro"   -> UNCHANGED state /\ Record("del", n, 0, Err)
       [] n = "dim"  -> attrs[n] = 0 /\ UNCHANGED state /\ Record("del", n, 0, Err)
\* obj.attrs[n] = v   (direct write into the dictionary, any name)
Poke(n, v) ==
  /\ Bound
  /\ attrs' = [attrs EXCEPT ![n] = v] /\ UNCHANGED <<inst, lab>> /\ Record("poke", n, v, Ok(0))

Next == \E n \in Names : (\E v \in Vals : Set(n, v) \/ Poke(n, v)) \/ Get(n) \/ Del(n)
Spec == Init /\ [][Next /\ (Emit => PrintT(ToJson([op |-> "attr_path", path |-> hist'])))]_allvars
View == state

(* ---------- the property, as invariants / action properties of the machine ---------- *)
\* names starting with an underscore or naming class members never enter attrs through attribute syntax
NeverEnters == [][\A n \in Names \cap {"und", "ro", "meth"} :
                    (attrs'[n] # attrs[n]) => hist'[Len(hist')].act = "poke"]_allvars
\* entries stored in attrs under such names are neither reachable nor deletable through attribute syntax
Unreachable == [][\A n \in Names \cap {"und", "ro", "meth"} :
                    LET e == hist'[Len(hist')] IN
                    (Len(hist') > Len(hist) /\ e.n = n /\ attrs[n] # 0) =>
                       /\ (e.act = "get" => ~(e.res.ok /\ e.res.v = attrs[n] /\ inst[n] # attrs[n]))
                       /\ (e.act = "del" => attrs'[n] = attrs[n])]_allvars
\* public names read what was written
PublicRoundTrip == [][LET e == hist'[Len(hist')] IN
                      (Len(hist') > Len(hist) /\ e.act = "get" /\ e.n = "pub") => (e.res.ok <=> attrs["pub"] # 0) /\ (e.res.ok => e.res.v = attrs["pub"])]_allvars
\* a dimension name reads and writes that axis' labels, never attrs
DimIsLabels == [][LET e == hist'[Len(hist')] IN
                  (Len(hist') > Len(hist) /\ e.n = "dim" /\ e.act # "poke") => attrs' = attrs /\ (e.act = "get" => e.res.v = lab)]_allvars
=============================================================================
