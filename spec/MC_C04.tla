------------------------------- MODULE MC_C04 -------------------------------
(* C04: arithmetic aligns operands by dimension name and by label. *)
EXTENDS Arrays, Json
CONSTANTS U, Full, Emit
VARIABLES in, out, ph
vars == <<in, out, ph>>

InjSeqs(S, n) == {s \in [1..n -> S] : \A i, j \in 1..n : i # j => s[i] # s[j]}
Axes1 == UNION {InjSeqs(U, n) : n \in 1..Cardinality(U)}
\* the second operand may also carry a label between those of the first (a non-integral number when it is a float axis)
AxesB == UNION {InjSeqs(U \cup {3}, n) : n \in 1..3}
XM == IF Full THEN Axes1 ELSE {<<2, 4>>, <<4, 2>>, <<4, 6>>, <<6, 2, 4>>, <<2>>}
YM == {<<2, 4, 6>>, <<6, 2>>}
\* longer axes: the same label set stored in several orders, among them permutations that keep the first and the last label in place
LongAxes == {<<2, 6, 4, 8>>, <<2, 4, 6, 8>>, <<8, 4, 6, 2>>, <<2, 6, 8>>, <<2, 10, 6, 4, 12>>, <<2, 4, 6, 10, 12>>}
Mk2(dims, xl, yl, base) == Fresh(dims, [i \in 1..Len(dims) |-> "i"],
                                 [i \in 1..Len(dims) |-> IF dims[i] = "x" THEN xl ELSE IF dims[i] = "y" THEN yl ELSE <<4, 2>>],
                                 [i \in 1..Len(dims) |-> i], "i", base \div 100, base)
DimConfigs == {<< <<"x">>, <<"x">> >>, << <<"x", "y">>, <<"x">> >>, << <<"x">>, <<"x", "y">> >>, << <<"x", "y">>, <<"y", "x">> >>,
               << <<"x", "y">>, <<"y", "z">> >>, << <<"y", "x">>, <<"x", "z">> >>, << <<>>, <<"x">> >>, << <<"x">>, <<>> >>,
               << <<"x">>, <<"y">> >>, << <<"y">>, <<"x", "y">> >>, << <<"z", "x", "y">>, <<"y", "x">> >>, << <<"x", "y">>, <<"y", "z", "x">> >>}

Init == in = <<>> /\ out = <<>> /\ ph = 0
Choose ==
  /\ ph = 0 /\ ph' = 1 /\ out' = out
  /\ \/ \E La \in Axes1 : \E Lb \in AxesB : in' = [fam |-> "1d", a |-> Mk2(<<"x">>, La, <<>>, 100), b |-> Mk2(<<"x">>, Lb, <<>>, 0)]
     \/ \E La, Lb \in LongAxes : in' = [fam |-> "1d", a |-> Mk2(<<"x">>, La, <<>>, 100), b |-> Mk2(<<"x">>, Lb, <<>>, 0)]
     \/ \E cfg \in {<< <<"x", "y">>, <<"x">> >>, << <<"x", "y">>, <<"y", "x">> >>, << <<"y">>, <<"x", "y">> >>} : \E xa, xb \in LongAxes : \E ya \in YM :
          in' = [fam |-> "nd", a |-> Mk2(cfg[1], xa, ya, 100), b |-> Mk2(cfg[2], xb, ya, 0)]
     \/ \E cfg \in DimConfigs : \E xa, xb \in XM : \E ya, yb \in YM :
          in' = [fam |-> "nd", a |-> Mk2(cfg[1], xa, ya, 100), b |-> Mk2(cfg[2], xb, yb, 0)]
Apply ==
  /\ ph = 1 /\ ph' = 2 /\ in' = in
  /\ out' = BinOp(in.a, in.b)
  /\ (Emit => PrintT(ToJson([op |-> "binop", in |-> in, out |-> out'])))
Next == Choose \/ Apply
Spec == Init /\ [][Next]_vars

(* ---------- theorems ---------- *)
\* dims: the first operand's in their order, then the new ones of the second
DimsRule == ph = 2 => out.arr.dims = in.a.dims \o SelectSeq(in.b.dims, LAMBDA d : ~HasDim(in.a, d))
\* every shared dimension carries the union of both label sets, each label once
UnionRule ==
  ph = 2 => \A k \in 1..NDim(out.arr) :
     LET d == out.arr.dims[k]
         la == IF HasDim(in.a, d) THEN Rng(in.a.labs[DimPos(in.a, d)]) ELSE {}
         lb == IF HasDim(in.b, d) THEN Rng(in.b.labs[DimPos(in.b, d)]) ELSE {}
     IN Rng(out.arr.labs[k]) = la \cup lb /\ NoDup(out.arr.labs[k])
\* the value at every label coordinate pairs a[coord] with b[coord] (NaN where an operand lacks the label)
PairRule ==
  ph = 2 => \A c \in Rng(Coords(Shape(out.arr))) :
     LET r == out.arr
         side(o) == LET src == [i \in 1..NDim(o) |-> FirstPos(o.labs[i], r.labs[DimPos(r, o.dims[i])][c[DimPos(r, o.dims[i])]])]
                    IN IF \E i \in 1..NDim(o) : src[i] = <<>> THEN NaN ELSE At(o, [i \in 1..NDim(o) |-> src[i][1]])
     IN At(r, c) = <<side(in.a), side(in.b)>>
\* label-set commutativity: a op b and b op a carry the same label sets on every dimension
Commutes ==
  ph = 2 => LET r2 == BinOp(in.b, in.a).arr IN
            \A k \in 1..NDim(out.arr) : Rng(out.arr.labs[k]) = Rng(r2.labs[DimPos(r2, out.arr.dims[k])])
\* a op a needs no fill
SelfNoFill == ph = 1 => BinOp(in.a, in.a).filled = <<FALSE, FALSE>>
=============================================================================
