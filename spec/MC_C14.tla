------------------------------- MODULE MC_C14 -------------------------------
(***************************************************************************)
(* C14: Dataset-wide operations equal the per-variable operations.         *)
(* The specification decides, for a Dataset whose variables' dimension     *)
(* sets overlap partially, which variables an operation along dimension d  *)
(* affects (those having d) and which it leaves unchanged, the dimensions  *)
(* of the resulting Dataset and whether dataset metadata is carried.  The  *)
(* per-variable result is, as the property says, the DimArray operation on *)
(* that variable (decided by C01-C18).                                     *)
(***************************************************************************)
EXTENDS Integers, Sequences, FiniteSets, TLC, Json, SequencesExt
CONSTANTS MaxVars, Emit
VARIABLES in, out, ph
vars == <<in, out, ph>>

VarPool == {<<"x", "y">>, <<"y", "x">>, <<"y">>, <<"x">>, <<>>, <<"y", "z">>, <<"z">>}
Keys == <<"a", "b", "c", "d">>
Rng(s) == {s[i] : i \in DOMAIN s}
\* dataset dims: order of first appearance over the variables in key order
RECURSIVE DsDims(_)
DsDims(vs) == IF vs = <<>> THEN <<>>
              ELSE LET rest == DsDims(SubSeq(vs, 1, Len(vs) - 1)) IN rest \o SelectSeq(vs[Len(vs)], LAMBDA d : d \notin Rng(rest))

OpsOnDim == {"take_scalar_keepdims", "isel_scalar_keepdims", "take_scalar", "take_list", "take_slice", "take_position", "isel_scalar", "sel_list",
             "mean", "sum", "std", "var", "median", "take_axis", "take_axis_wrap", "take_axis_clip", "sort_axis", "reindex_axis", "reindex_fill", "reindex_left", "reindex_right", "interp_axis", "interp_axis_oob", "interp_axis_nodes"}
Drops == {"take_scalar", "isel_scalar", "mean", "sum", "std", "var", "median"}
CarriesAttrs == {"take_scalar_keepdims", "isel_scalar_keepdims", "take_scalar", "take_list", "take_slice", "take_position", "isel_scalar", "sel_list", "take_axis", "take_axis_wrap", "take_axis_clip", "sort_axis",
                 "reindex_axis", "reindex_fill", "reindex_left", "reindex_right", "interp_axis", "interp_axis_oob", "interp_axis_nodes"}
Whole == {"add_ds", "mul_scalar", "rsub_scalar", "neg", "stack_ds", "concatenate_ds", "construct_misaligned",
          "add_ds_misaligned", "sub_ds_misaligned", "stack_ds_align", "stack_ds_align_sort_same", "concatenate_ds_align", "concatenate_ds_align_pos",
          "concatenate_ds_mismatch", "to_array", "to_array_default", "to_array_keys", "to_array_roundtrip"}
\* to_array: one DimArray over (key axis) + the Dataset's dims; the slice at key k is variable k broadcast *by name* onto the
\* Dataset's axes (a variable lacking a dimension is repeated along it, one listing the dims in another order is transposed).
\* to_array_roundtrip: to_dataset(axis=key axis) of that array gives back the keys, every variable on all the Dataset's dims.
ToArray == {"to_array", "to_array_default", "to_array_keys", "to_array_roundtrip"}
\* concatenate_ds_mismatch: the second Dataset carries the labels of x and y in another order (same lengths).  Without align=True
\* a variable that has the concatenation dimension d and another of those dimensions cannot be joined: the call must be
\* rejected, as concatenate() on that variable is.
Rejects(o, vs, d) == o = "concatenate_ds_mismatch" /\ \E i \in 1..Len(vs) : d \in Rng(vs[i]) /\ \E q \in Rng(vs[i]) : q # d /\ q \in {"x", "y"}

Init == in = <<>> /\ out = <<>> /\ ph = 0
Choose ==
  /\ ph = 0 /\ ph' = 1
  /\ \E n \in 1..MaxVars : \E vs \in [1..n -> VarPool] :
       LET dd == DsDims(vs) IN
       \/ \E o \in OpsOnDim : \E d \in Rng(dd) : \E byname \in BOOLEAN :
            /\ (o \in {"interp_axis", "interp_axis_oob", "interp_axis_nodes", "reindex_fill", "reindex_left", "reindex_right"} => d = "x" \/ d = "y")
            /\ in' = [vars |-> vs, op |-> o, d |-> d, byname |-> byname]
            /\ out' = [affected |-> [i \in 1..n |-> d \in Rng(vs[i])],
                       dims |-> IF o \in Drops THEN SelectSeq(dd, LAMBDA q : q # d) ELSE dd,
                       attrs |-> o \in CarriesAttrs, pervar |-> TRUE, rejects |-> FALSE]
       \/ \E o \in Whole :
            /\ in' = [vars |-> vs, op |-> o, d |-> IF Len(dd) > 0 THEN dd[1] ELSE "", byname |-> TRUE]
            /\ out' = [affected |-> [i \in 1..n |-> TRUE],
                       dims |-> IF o \in {"stack_ds", "stack_ds_align", "stack_ds_align_sort_same", "to_array", "to_array_keys"} THEN <<"k">> \o dd
                               ELSE IF o = "to_array_default" THEN <<"unnamed">> \o dd ELSE dd, attrs |-> FALSE, pervar |-> TRUE,
                       rejects |-> Rejects(o, vs, IF Len(dd) > 0 THEN dd[1] ELSE "")]
  /\ (Emit => PrintT(ToJson([op |-> "dataset_op", in |-> in', out |-> out'])))
Next == Choose
Spec == Init /\ [][Next]_vars
\* a variable is affected iff it has the operated dimension; dropped dims disappear from the dataset
Consistent == ph = 1 => \A i \in 1..Len(in.vars) : (in.op \in OpsOnDim) => (out.affected[i] <=> in.d \in Rng(in.vars[i]))
=============================================================================
