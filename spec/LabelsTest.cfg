
