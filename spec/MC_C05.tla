------------------------------- MODULE MC_C05 -------------------------------
(* C05 (constructor forms): all documented ways of specifying the same axes build equal arrays; data whose shape *)
(* disagrees with the axes, or duplicate dimension names, are rejected.                                          *)
EXTENDS Arrays, Json
CONSTANTS Emit
VARIABLES in, out, ph
vars == <<in, out, ph>>
DimNames == <<"x", "y", "z">>
\* two label pools: axes of pairwise different lengths, and axes of one common length (where the shape cannot tell the dimensions apart)
Pools == << << <<4, 2, 6>>, <<2, 6>>, <<6, 2, 4, 8>> >>, << <<4, 2>>, <<2, 6>>, <<6, 4>> >>, << <<4>>, <<2, 6, 4>>, <<6, 8, 2>> >> >>
Arr(nd, perm, pl) == Fresh([i \in 1..nd |-> DimNames[perm[i]]], [i \in 1..nd |-> "i"], [i \in 1..nd |-> Pools[pl][perm[i]]], [i \in 1..nd |-> 0], "f", 0, 100)
Perms(n) == {p \in [1..n -> 1..3] : \A i, j \in 1..n : i # j => p[i] # p[j]}
Init == in = <<>> /\ out = <<>> /\ ph = 0
Choose == /\ ph = 0 /\ ph' = 1
          /\ \E nd \in 0..3 : \E p \in Perms(nd) : \E pl \in 1..Len(Pools) : \E bad \in {"", "shape", "dupnames", "ndim"} :
               \* ndim: the data have more (or fewer) dimensions than there are axes, the leading lengths agreeing
               /\ (bad = "shape" => nd >= 1) /\ (bad = "dupnames" => nd >= 2) /\ (bad = "ndim" => nd >= 1)
               /\ in' = [a |-> Arr(nd, p, pl), bad |-> bad]
               /\ out' = [ok |-> bad = "", val |-> Arr(nd, p, pl)]
               /\ (Emit => PrintT(ToJson([op |-> "construct", in |-> in', out |-> out'])))
Spec == Init /\ [][Choose]_vars
FormsAgree == ph = 1 => (WellFormed(in.a) /\ (out.ok <=> in.bad = ""))
=============================================================================
