SPECIFICATION Spec
CONSTANTS
  U = {2, 4, 6}
  U2 <- U2Quick
  MaxDim = 2
  Emit = TRUE
INVARIANT TakeAllIdentity
INVARIANT ResultSound
INVARIANT ErrorIffUnresolved
CHECK_DEADLOCK FALSE
