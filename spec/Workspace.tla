------------------------------ MODULE Workspace ------------------------------
(***************************************************************************)
(* C05 / C15: a Python session holding DimArrays in registers.             *)
(*                                                                         *)
(*   reg[r]   abstract array held by register r (live[r] says whether set) *)
(*   own[r]   the register owns its data and axes (constructor or copy()); *)
(*            in-place actions are generated only on owning registers,     *)
(*            because results of transpose / indexing may share buffers or *)
(*            Axis objects with their source (neither promised nor         *)
(*            forbidden by the properties)                                 *)
(*   hist     the program so far: (action, arguments, expected state)      *)
(*                                                                         *)
(* State-changing actions are data movements, so cells stay identifiers;   *)
(* computing operations (arithmetic, reductions, align without sort, ...)  *)
(* appear as *queries*: executed on the real objects, result discarded,    *)
(* state unchanged - they are what populates caches in the implementation. *)
(* The harness runs every step also on freshly constructed twins of the    *)
(* operands and requires identical answers (history independence).         *)
(***************************************************************************)
EXTENDS Arrays, Json

CONSTANTS MaxDepth, Focus, Emit, SeedIds     \* SeedIds: which pairs of initial arrays the session may start from;  Focus = "all" | "cache" (a reduced action menu aimed at cached state, explored deeper)
VARIABLES reg, live, own, grp, warm, hist
\* warm[r]: r went through a query since it was last written (an abstraction of 'caches may be populated'; it only
\* serves to make the exhaustive exploration distinguish histories with queries)
\* grp[r]: alias group - registers whose arrays may share buffers or Axis objects (a result belongs to the group of its
\* source, copy() and constructors start a new group); in-place actions require the register to be alone in its group
state == <<reg, live, own, grp, warm>>
allvars == <<reg, live, own, grp, warm, hist>>

Regs == {"r1", "r2", "r3"}
Nil == [dims |-> <<>>, kinds |-> <<>>, labs |-> <<>>, aattrs |-> <<>>, dtype |-> "f", attrs |-> 0, cells |-> <<0>>]
Seed1 == Fresh(<<"x", "y">>, <<"i", "i">>, << <<2, 4, 6>>, <<2, 4>> >>, <<1, 2>>, "f", 7, 100)
Seed2 == Fresh(<<"x">>, <<"i">>, << <<6, 4, 8>> >>, <<3>>, "f", 8, 200)     \* labels stored unsorted

\* other starting points: a 3-d array (z, x, y) with x stored unsorted and y decreasing next to a 2-d (y, x) one;
\* a 1-d decreasing array next to a 2-d one with a singleton dimension
Seed1b == Fresh(<<"z", "x", "y">>, <<"i", "i", "i">>, << <<8, 6>>, <<6, 2, 4>>, <<4, 2>> >>, <<3, 1, 2>>, "f", 7, 100)
Seed2b == Fresh(<<"y", "x">>, <<"i", "i">>, << <<2, 4>>, <<4, 8>> >>, <<2, 1>>, "f", 8, 200)
Seed1c == Fresh(<<"x">>, <<"i">>, << <<8, 6, 4, 2>> >>, <<1>>, "f", 7, 100)
Seed2c == Fresh(<<"x", "w">>, <<"i", "i">>, << <<2, 4>>, <<6>> >>, <<1, 4>>, "f", 8, 200)
SeedPair(s) == CASE s = 1 -> <<Seed1, Seed2>> [] s = 2 -> <<Seed1b, Seed2b>> [] s = 3 -> <<Seed1c, Seed2c>>

Snapshot == [r \in Regs |-> IF live[r] THEN reg[r] ELSE Nil]
Record(act, args) == hist' = Append(hist, [act |-> act, args |-> args, post |-> [r \in Regs |-> IF live'[r] THEN reg'[r] ELSE Nil],
                                           live |-> live', own |-> own'])
Bound == Len(hist) < MaxDepth + 1          \* (the first record of hist is the starting point)

Init == /\ \E s \in SeedIds :
             /\ reg = [r \in Regs |-> IF r = "r1" THEN SeedPair(s)[1] ELSE IF r = "r2" THEN SeedPair(s)[2] ELSE Nil]
             /\ hist = << [act |-> "init", args |-> [src |-> "", dst |-> "", k |-> "", l |-> <<>>],
                           post |-> [r \in Regs |-> IF r = "r1" THEN SeedPair(s)[1] ELSE IF r = "r2" THEN SeedPair(s)[2] ELSE Nil],
                           live |-> [r \in Regs |-> r # "r3"], own |-> [r \in Regs |-> r # "r3"]] >>
        /\ live = [r \in Regs |-> r # "r3"] /\ own = [r \in Regs |-> r # "r3"] /\ warm = [r \in Regs |-> FALSE]
        /\ grp = [r \in Regs |-> IF r = "r1" THEN 1 ELSE IF r = "r2" THEN 2 ELSE 3]

FreshGrp(dst) == CHOOSE g \in 1..4 : \A r \in Regs : (r # dst /\ live[r]) => grp[r] # g
\* a result inherits the 'warm' flag of its source: what was cached on the source may have been carried over
Put5(dst, a, owner, g, w) == /\ reg' = [reg EXCEPT ![dst] = a] /\ live' = [live EXCEPT ![dst] = TRUE] /\ own' = [own EXCEPT ![dst] = owner]
                             /\ warm' = [warm EXCEPT ![dst] = w] /\ grp' = [grp EXCEPT ![dst] = g]
Alone(r) == \A q \in Regs : (q # r /\ live[q]) => grp[q] # grp[r]
\* an in-place action on r may legitimately show through in the registers that alias r (slice views, shared Axis objects):
\* the properties neither promise nor forbid it, so those registers leave the session (they are no longer observed)
DropAliases(r) == /\ live' = [q \in Regs |-> live[q] /\ (q = r \/ grp[q] # grp[r])]
                  /\ UNCHANGED <<own, grp, warm>>
FullIdx(a) == [i \in 1..NDim(a) |-> IxAll]
XPos(a) == DimPos(a, "x")
Args(src, dst, k, l) == [src |-> src, dst |-> dst, k |-> k, l |-> l]

(* ---------- non in-place operations: result stored in a register ---------- *)
\* indexing along x: reversed list of labels / slice from the first stored label / first label as scalar
Index(src, dst, form) ==
  /\ Bound /\ live[src] /\ HasDim(reg[src], "x") /\ Len(reg[src].labs[XPos(reg[src])]) >= 2
  /\ (form = "scalar" => NDim(reg[src]) >= 2) /\ (form = "unsorted" => Len(reg[src].labs[XPos(reg[src])]) >= 3)
  /\ LET a == reg[src]  p == XPos(a)  L == a.labs[p]
         ix == CASE form = "list" -> IxLi(Rev(L))
                 [] form = "unsorted" -> IxLi(<<L[1], L[Len(L)], L[2]>>)
                 [] form = "slice" -> IxSl(<<L[2]>>, <<>>, <<>>)
                 [] form = "scalar" -> IxSc(L[1])
                 [] form = "ixslice" -> IxSl(<<1>>, <<>>, <<>>)          \* by position: a.ix[1:] along x
                 [] form = "ixlist" -> IxLi(<<Len(L) - 1, 0>>)           \* by position: a.take([n-1, 0], axis=x, indexing="position")
         r == Take(a, [i \in 1..NDim(a) |-> IF i = p THEN ix ELSE IxAll], IF form \in {"ixslice", "ixlist"} THEN "position" ELSE "label", <<>>)
     IN r.ok /\ Put5(dst, r.val, FALSE, grp[src], warm[src]) /\ Record("index", Args(src, dst, form, <<>>))
TransposeOp(src, dst) ==
  /\ Bound /\ live[src] /\ NDim(reg[src]) = 2
  /\ Put5(dst, Transpose(reg[src], <<2, 1>>), FALSE, grp[src], warm[src]) /\ Record("transpose", Args(src, dst, "", <<>>))
ReindexOp(src, dst, new) ==
  /\ Bound /\ live[src] /\ HasDim(reg[src], "x")
  /\ LET r == Reindex(reg[src], XPos(reg[src]), new, "i", NaN, "f", FALSE, "none")
     IN Put5(dst, r.val, FALSE, grp[src], warm[src]) /\ Record("reindex", Args(src, dst, "", new))
SortOp(src, dst) ==
  /\ Bound /\ live[src] /\ HasDim(reg[src], "x")
  /\ LET a == reg[src]  p == XPos(a)
         perm == SortedPerm(a.labs[p])
         r == Take(a, [i \in 1..NDim(a) |-> IF i = p THEN IxLi(Gather(a.labs[p], perm)) ELSE IxAll], "label", <<>>)
     IN Put5(dst, r.val, FALSE, grp[src], warm[src]) /\ Record("sort_axis", Args(src, dst, "", <<>>))
\* newaxis with values (a repeat) / broadcast onto a new leading dimension "n"
RepeatOp(src, dst) ==
  /\ Bound /\ live[src] /\ ~HasDim(reg[src], "n") /\ NDim(reg[src]) <= 2
  /\ Put5(dst, NewAxis(reg[src], "n", 0, <<10, 12>>), FALSE, grp[src], warm[src]) /\ Record("repeat", Args(src, dst, "", <<10, 12>>))
SqueezeBack(src, dst) ==        \* take the first slice of the repeated dimension again
  /\ Bound /\ live[src] /\ HasDim(reg[src], "n") /\ DimPos(reg[src], "n") = 1 /\ NDim(reg[src]) >= 2
  /\ LET a == reg[src]
         r == Take(a, [i \in 1..NDim(a) |-> IF i = 1 THEN IxSc(a.labs[1][1]) ELSE IxAll], "label", <<>>)
     IN r.ok /\ Put5(dst, r.val, FALSE, grp[src], warm[src]) /\ Record("first_of_n", Args(src, dst, "", <<>>))
CopyOp(src, dst) == /\ Bound /\ live[src] /\ src # dst /\ Put5(dst, reg[src], TRUE, FreshGrp(dst), warm[src]) /\ Record("copy", Args(src, dst, "", <<>>))
\* DimArray(reg[src], tag=.., mut=..): a new array built from another one with metadata keywords - same values, labels and dims,
\* metadata id 9; the source keeps its own metadata.  (It shares the source's data and axes: never mutated in place afterwards.)
CtorMeta(src, dst) == /\ Bound /\ live[src] /\ src # dst /\ reg[src].attrs # 9
                      /\ Put5(dst, [reg[src] EXCEPT !.attrs = 9], FALSE, grp[src], warm[src]) /\ Record("ctor_meta", Args(src, dst, "", <<>>))
\* through a Dataset: ds = Dataset(); ds['v'] = reg[src]; reg[dst] = ds['v']
ViaDataset(src, dst) == /\ Bound /\ live[src] /\ Put5(dst, reg[src], FALSE, grp[src], warm[src]) /\ Record("via_dataset", Args(src, dst, "", <<>>))
\* align(sort=True) of two registers; both are replaced by their aligned versions (order fixed by sort)
NoEmptyAxis(a) == \A i \in 1..NDim(a) : Len(a.labs[i]) > 0
AlignSorted(r1, r2, join) ==
  /\ Bound /\ live[r1] /\ live[r2] /\ r1 # r2
  /\ LET al == Align(<<reg[r1], reg[r2]>>, join, TRUE, <<>>)
     IN /\ reg' = [reg EXCEPT ![r1] = al.arrs[1], ![r2] = al.arrs[2]] /\ UNCHANGED live
        /\ own' = [own EXCEPT ![r1] = FALSE, ![r2] = FALSE] /\ warm' = [warm EXCEPT ![r1] = FALSE, ![r2] = FALSE]
        /\ grp' = [r \in Regs |-> IF grp[r] = grp[r2] THEN grp[r1] ELSE grp[r]]
        /\ Record("align_sorted", Args(r1, r2, join, <<>>))

(* ---------- queries: executed on the implementation, state unchanged ---------- *)
Query(kind, r1, r2) ==
  /\ Bound /\ live[r1] /\ live[r2] /\ UNCHANGED <<reg, live, own, grp>> /\ warm' = [warm EXCEPT ![r1] = TRUE, ![r2] = TRUE]
  /\ (kind \in {"add", "align", "stack_align", "concat_align"} => r1 # r2)
  /\ (kind \in {"is_monotonic", "label_slice", "sum", "flatten", "repr", "absent_label", "absent_in_list", "first_label"} => r1 = r2)
  /\ Record("query", Args(r1, r2, kind, <<>>))

(* ---------- in-place operations, on owning registers only ---------- *)
SetItem(r, form) ==
  /\ Bound /\ live[r] /\ HasDim(reg[r], "x") /\ Len(reg[r].labs[XPos(reg[r])]) >= 1
  /\ LET a == reg[r]  p == XPos(a)  L == a.labs[p]
         ix == IF form = "scalar" THEN IxSc(L[Len(L)]) ELSE IxLi(<<L[Len(L)], L[1]>>)
         res == Put(a, [i \in 1..NDim(a) |-> IF i = p THEN ix ELSE IxAll], "label", <<>>, [shape |-> <<>>, cells |-> <<950>>, kind |-> "f"])
     IN res.ok /\ reg' = [reg EXCEPT ![r] = res.val] /\ DropAliases(r) /\ Record("setitem", Args(r, r, form, <<>>))
Relabel(r, form, new) ==      \* form: "all" (a.axes['x'][:] = new), "attr" (a.x = new), "one" (a.axes['x'][0] = new[1])
  /\ Bound /\ live[r] /\ HasDim(reg[r], "x") /\ Len(reg[r].labs[XPos(reg[r])]) >= 1
  /\ LET a == reg[r]  p == XPos(a)  L == a.labs[p]
         L2 == IF form = "one" THEN [L EXCEPT ![1] = new[1]] ELSE new
     IN /\ Len(L2) = Len(L) /\ NoDup(L2)
        /\ reg' = [reg EXCEPT ![r].labs[p] = L2] /\ DropAliases(r) /\ Record("relabel", Args(r, r, form, new))
RenameAxis(r) ==              \* a.axes['x'].name = 'w' / a.dims = (...)
  /\ Bound /\ live[r] /\ HasDim(reg[r], "x") /\ ~HasDim(reg[r], "w")
  /\ reg' = [reg EXCEPT ![r].dims[XPos(reg[r])] = "w"] /\ DropAliases(r) /\ Record("rename", Args(r, r, "x>w", <<>>))
RenameBack(r) ==
  /\ Bound /\ live[r] /\ HasDim(reg[r], "w") /\ ~HasDim(reg[r], "x")
  /\ reg' = [reg EXCEPT ![r].dims[DimPos(reg[r], "w")] = "x"] /\ DropAliases(r) /\ Record("rename", Args(r, r, "w>x", <<>>))
SetAttr(r) ==                 \* a.attrs['mut'].append(..) and a.units = ..  : metadata id becomes 9
  /\ Bound /\ live[r] /\ reg[r].attrs # 9
  /\ reg' = [reg EXCEPT ![r].attrs = 9] /\ DropAliases(r) /\ Record("setattr", Args(r, r, "", <<>>))

NewLabs == {<<6, 4, 2>>, <<4, 2, 6>>, <<2, 4, 8>>, <<8, 6>>, <<6, 2>>, <<8, 2, 4>>}
NextAll ==
  \/ \E s \in Regs : \E d \in Regs : \E f \in {"list", "unsorted", "slice", "scalar", "ixslice", "ixlist"} : Index(s, d, f)
  \/ \E s \in Regs : \E d \in Regs : TransposeOp(s, d) \/ SortOp(s, d) \/ CopyOp(s, d) \/ CtorMeta(s, d) \/ ViaDataset(s, d) \/ RepeatOp(s, d) \/ SqueezeBack(s, d)
  \/ \E s \in Regs : \E d \in Regs : \E new \in NewLabs : ReindexOp(s, d, new)
  \/ \E a \in Regs : \E b \in Regs : \E j \in {"outer", "inner"} : AlignSorted(a, b, j)
  \/ \E a \in Regs : \E b \in Regs : \E k \in {"add", "align", "stack_align", "concat_align", "is_monotonic", "label_slice", "sum", "flatten", "repr",
                                                    "absent_label", "absent_in_list", "first_label"} : Query(k, a, b)
  \/ \E r \in Regs : \E f \in {"scalar", "list"} : SetItem(r, f)
  \/ \E r \in Regs : \E f \in {"all", "attr", "one"} : \E new \in NewLabs \cup {<<5>>, <<9>>} : Relabel(r, f, new)
  \/ \E r \in Regs : RenameAxis(r) \/ RenameBack(r) \/ SetAttr(r)
\* cached-state focus: queries that may populate caches, then operations whose result could depend on them
NextCache ==
  \/ \E s \in {"r1", "r2"} : \E f \in {"unsorted", "slice"} : Index(s, "r3", f) \/ Index(s, s, f)
  \/ \E a \in Regs : \E b \in Regs : \E k \in {"add", "align", "stack_align", "is_monotonic", "label_slice", "flatten", "absent_label", "first_label"} : Query(k, a, b)
  \/ \E s \in {"r1", "r2"} : Index(s, "r3", "ixslice")
  \/ \E r \in {"r1", "r2"} : \E f \in {"all", "one"} : \E new \in {<<6, 4, 2>>, <<4, 2, 6>>, <<2, 4, 8>>, <<9>>} : Relabel(r, f, new)
  \/ \E s \in {"r1", "r2"} : SortOp(s, "r3") \/ CopyOp(s, "r3") \/ ReindexOp(s, "r3", <<8, 2, 4>>)
Next == IF Focus = "cache" THEN NextCache ELSE NextAll

Spec == Init /\ [][Next /\ (Emit => PrintT(ToJson([op |-> "ws_path", path |-> hist'])))]_allvars
SpecSim == Init /\ [][NextAll]_allvars
EmitFinal == (Len(hist) = MaxDepth + 1) => PrintT(ToJson([op |-> "ws_path", path |-> hist]))
View == state

(* ---------- properties ---------- *)
\* C05: every array held by the session is well-formed
AllWellFormed == \A r \in Regs : live[r] => WellFormed(reg[r])
\* C15: a non in-place action changes no register other than its destination(s)
InPlaceActs == {"setitem", "relabel", "rename", "setattr"}
OperandsUnchanged ==
  [][LET e == hist'[Len(hist')] IN
     Len(hist') > Len(hist) =>
       \A r \in Regs : (reg'[r] # reg[r] \/ live'[r] # live[r]) =>
          \/ r = e.args.dst
          \/ (e.act = "align_sorted" /\ r = e.args.src)
          \/ (e.act \in InPlaceActs /\ grp[r] = grp[e.args.src])]_allvars
\* copies are independent: an in-place action on one register changes that register only
CopyIndependent ==
  [][LET e == hist'[Len(hist')] IN
     (Len(hist') > Len(hist) /\ e.act \in InPlaceActs) =>
        \A r \in Regs : grp[r] # grp[e.args.src] => (reg'[r] = reg[r] /\ live'[r] = live[r])]_allvars
=============================================================================
