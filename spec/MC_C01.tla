------------------------------- MODULE MC_C01 -------------------------------
(***************************************************************************)
(* C01: label / position indexing returns exactly the addressed elements.  *)
(* One-step machine: Init enumerates (array, index tuple, mode, tol),      *)
(* Next applies Take and emits the scenario with the expected outcome.     *)
(***************************************************************************)
EXTENDS Arrays, Json

CONSTANTS U,        \* label universe for the first dimension (even numbers)
          U2,       \* label sequences allowed on later dimensions (set of sequences)
          MaxDim,   \* 0..MaxDim dimensions
          Emit      \* TRUE: print scenarios as JSON

U2Quick == {<<4, 2>>, <<2, 6>>}
U2Thorough == {<<4, 2>>, <<2, 6>>, <<2, 6, 4>>, <<4>>}

VARIABLES in, out, ph
vars == <<in, out, ph>>

DimNames == <<"x", "y", "z", "w">>

InjSeqs(S, n) == {s \in [1..n -> S] : \A i, j \in 1..n : i # j => s[i] # s[j]}
LabSeqs1 == UNION {InjSeqs(U, n) : n \in 1..Cardinality(U)}
\* label tuples for nd dimensions
RECURSIVE LabTuples(_)
LabTuples(nd) == IF nd = 0 THEN {<<>>}
                 ELSE IF nd = 1 THEN {<<s>> : s \in LabSeqs1}
                 ELSE {t \o <<s>> : t \in LabTuples(nd - 1), s \in U2}

Lo(L) == CHOOSE v \in Rng(L) : \A w \in Rng(L) : v <= w
Hi(L) == CHOOSE v \in Rng(L) : \A w \in Rng(L) : v >= w
\* absent labels: below, between (odd numbers), above
Absent(L) == {Lo(L) - 2, Lo(L) + 1, Hi(L) + 2}
Masks(n) == [1..n -> BOOLEAN]

LabelMenu(L) ==
  {IxAll}
  \cup {IxSc(v) : v \in Rng(L) \cup Absent(L)}
  \cup {IxLi(<<>>), IxLi(<<L[1]>>), IxLi(Rev(L)), IxLi(<<L[1], L[1]>>), IxLi(<<L[Len(L)], L[1], L[Len(L)]>>)}
  \cup {IxLi(<<L[1], v>>) : v \in Absent(L)}
  \cup {IxMk(m) : m \in Masks(Len(L))}
  \cup {IxSl(<<L[1]>>, <<L[Len(L)]>>, <<>>), IxSl(<<>>, <<L[1]>>, <<>>)}

PosMenu(n) ==
  {IxAll}
  \cup {IxSc(v) : v \in (-n-1)..n}
  \cup {IxLi(<<>>), IxLi(<<0>>), IxLi([i \in 1..n |-> n - i]), IxLi(<<0, 0>>), IxLi(<<-1, 0>>), IxLi(<<0, n>>), IxLi(<<-n-1>>), IxLi(IF n >= 2 THEN <<-2, -1>> ELSE <<-1>>), IxLi([i \in 1..n |-> i - 1])}
  \cup {IxMk(m) : m \in Masks(n)}
  \cup {IxSl(<<1>>, <<>>, <<>>), IxSl(<<>>, <<-1>>, <<>>), IxSl(<<>>, <<>>, <<-1>>), IxSl(<<0>>, <<n+2>>, <<2>>)}

\* reduced menus used for arrays of three and more dimensions
LabelMenuR(L) == {IxAll, IxSc(L[Len(L)]), IxLi(Rev(L)), IxLi(<<L[1]>>), IxMk([i \in 1..Len(L) |-> i # 1 \/ Len(L) = 1]),
                  IxSl(<<L[1]>>, <<L[Len(L)]>>, <<>>), IxSc(Lo(L) + 1)}
PosMenuR(n) == {IxAll, IxSc(n - 1), IxSc(-n), IxLi([i \in 1..n |-> n - i]), IxLi(<<0>>), IxMk([i \in 1..n |-> i # 1 \/ n = 1]),
                IxSl(<<>>, <<-1>>, <<>>), IxSl(<<>>, <<>>, <<-1>>)}
RECURSIVE IdxTuplesR(_, _)
IdxTuplesR(labs, mode) ==
  IF labs = <<>> THEN {<<>>}
  ELSE {<<ix>> \o t : ix \in (IF mode = "label" THEN LabelMenuR(Head(labs)) ELSE PosMenuR(Len(Head(labs)))),
                      t \in IdxTuplesR(Tail(labs), mode)}
BigArrays == {<< <<4, 2>>, <<2, 6, 4>>, <<6, 2>> >>, << <<2, 4, 6>>, <<6>>, <<4, 2, 6>> >>}
            \cup (IF MaxDim >= 4 THEN {<< <<4, 2>>, <<2, 6, 4>>, <<6, 2>>, <<2, 4>> >>} ELSE {})

RECURSIVE IdxTuples(_, _)
IdxTuples(labs, mode) ==
  IF labs = <<>> THEN {<<>>}
  ELSE {<<ix>> \o t : ix \in (IF mode = "label" THEN LabelMenu(Head(labs)) ELSE PosMenu(Len(Head(labs)))),
                      t \in IdxTuples(Tail(labs), mode)}

MkArr(labs) == Fresh(SubSeq(DimNames, 1, Len(labs)), [i \in 1..Len(labs) |-> "i"], labs,
                     [i \in 1..Len(labs) |-> i], "f", 7, 100)
NoIn == [a |-> <<>>, idxs |-> <<>>, mode |-> "", tol |-> <<>>]

Init == in = NoIn /\ out = <<>> /\ ph = 0

\* ph 0 -> 1: choose the array and the mode
ChooseArray ==
  /\ ph = 0 /\ ph' = 1 /\ out' = out
  /\ \E nd \in 0..3 : \E labs \in (IF nd = 3 THEN BigArrays ELSE LabTuples(nd)) : \E mode \in {"label", "position", "tol"} :
        /\ (mode = "tol" => nd = 1)
        /\ (nd \in 1..2 => nd <= MaxDim)
        /\ in' = [a |-> MkArr(labs), idxs |-> <<>>, mode |-> mode, tol |-> <<>>]

\* ph 1 -> 2: choose the index tuple (and the tolerance in the 1-D tolerance model)
TolMenu(L) == {IxSc(v) : v \in (Lo(L) - 4)..(Hi(L) + 4)} \cup {IxLi(<<v, Hi(L) + 1>>) : v \in (Lo(L) - 3)..(Lo(L) + 1)}
              \cup {IxLi(<<>>), IxLi(<<Lo(L) + 1>>), IxLi(<<Hi(L), Hi(L) - 1, Hi(L)>>), IxAll}
ChooseIndex ==
  /\ ph = 1 /\ ph' = 2 /\ out' = out
  /\ IF in.mode = "tol"
     THEN \E t \in {0, 1, 2, 3, 100000} : \E ix \in TolMenu(in.a.labs[1]) :
             in' = [in EXCEPT !.idxs = <<ix>>, !.mode = "label", !.tol = <<t>>]
     ELSE IF NDim(in.a) >= 3
     THEN \E idxs \in IdxTuplesR(in.a.labs, in.mode) : in' = [in EXCEPT !.idxs = idxs]
     ELSE \E idxs \in IdxTuples(in.a.labs, in.mode) : in' = [in EXCEPT !.idxs = idxs]

KeepIdx(idxs) == [i \in 1..Len(idxs) |-> IF idxs[i].k = "sc" THEN IxLi(<<idxs[i].v>>) ELSE idxs[i]]
\* ph 2 -> 3: apply the operator
Apply ==
  /\ ph = 2 /\ ph' = 3 /\ in' = in
  /\ out' = Take(in.a, in.idxs, in.mode, in.tol)
  \* keep: the same read with keepdims=True - a scalar index keeps its dimension, with that one label
  /\ (Emit => PrintT(ToJson([op |-> "take", in |-> in, out |-> out', keep |-> Take(in.a, KeepIdx(in.idxs), in.mode, in.tol)])))

Next == ChooseArray \/ ChooseIndex \/ Apply

Spec == Init /\ [][Next]_vars

(* ---------- theorems checked on every scenario ---------- *)
AllIdx(a) == [i \in 1..NDim(a) |-> IxAll]
\* the full index is the identity
TakeAllIdentity == ph = 1 /\ in.mode # "tol" => Take(in.a, AllIdx(in.a), in.mode, in.tol) = Ok(in.a)
\* results are well-formed, every result cell is a source cell, and label
\* coordinates are preserved: the cell at result labels = the cell at those labels in the source
ResultSound ==
  (ph = 3 /\ out.ok) =>
    LET r == out.val  a == in.a IN
    /\ WellFormed(r)
    /\ Rng(r.cells) \subseteq Rng(a.cells)
    /\ \A i \in 1..NDim(r) : HasDim(a, r.dims[i])
    /\ \A i \in 1..NDim(r)-1 : DimPos(a, r.dims[i]) < DimPos(a, r.dims[i+1])
\* keepdims changes the shape only: same outcome class, same cells in the same order, every dimension kept
KeepDimsLaw ==
  ph = 3 => LET k == Take(in.a, KeepIdx(in.idxs), in.mode, in.tol) IN
            /\ k.ok <=> out.ok
            /\ out.ok => (k.val.cells = out.val.cells /\ k.val.dims = in.a.dims)
\* an error is raised iff some dimension's index does not resolve
ErrorIffUnresolved ==
  ph = 3 => (out.ok <=> \A i \in 1..NDim(in.a) : ResolveIndex(in.a, in.idxs, in.mode, in.tol)[i].ok)
=============================================================================
