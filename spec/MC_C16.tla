------------------------------- MODULE MC_C16 -------------------------------
(* C16 (part 2): which operation classes carry the array's / an axis' metadata over, and which drop it. *)
EXTENDS Integers, Sequences, TLC, Json
CONSTANTS Emit
VARIABLES in, out, ph
vars == <<in, out, ph>>

\* operation classes that return the array's metadata unchanged
Carry == {"take_scalar", "take_list", "take_slice", "take_mask", "take_position", "take_axis", "compress_axis",
          "sum", "mean", "median", "min", "std", "cumsum", "diff", "diff_keepaxis",
          "max", "prod", "var", "all", "any", "argmax_axis", "argmin_axis", "cumprod", "percentile", "sum_tuple", "median_skipna", "min_skipna", "sum_position",
          "transpose", "T", "swapaxes", "rollaxis", "newaxis", "squeeze", "repeat", "broadcast", "flatten", "flatten_reordered", "flatten_nonadjacent", "mean_tuple_reordered", "unflatten", "reshape",
          "reindex_axis", "reindex_axis_axisobj", "reindex_axis_ndarray", "align_outer", "align_inner_sort", "take_dict", "loc_slice", "reindex_like", "sort_axis", "interp_axis", "dropna", "fillna", "setna", "put_copy", "copy",
          "take_ndmask", "take_ndmask_dimarray", "compress_ndmask", "take_pointwise", "setna_list", "interp_axis_identity", "broadcast_reordered"}
\* operation classes that return arrays without the operands' metadata
Drop == {"add", "sub", "mul", "truediv", "floordiv", "pow", "radd", "rsub", "scalar_mul", "ndarray_add",
         "neg", "pos", "invert", "eq", "ne", "lt", "le", "gt", "ge", "and", "or", "stack", "concatenate",
         "concatenate_single", "stack_single", "concatenate_tuple3"}
\* operations on one axis after which that axis keeps its own metadata
AxisCarry == {"take_list", "take_slice", "take_mask", "take_position", "take_axis", "compress_axis", "reindex_axis", "reindex_axis_axisobj",
              "reindex_axis_ndarray", "align_outer", "align_inner_sort", "take_dict", "loc_slice", "sort_axis", "dropna",
              "transpose", "swapaxes", "squeeze", "newaxis", "sum_other", "cumsum"}

Init == in = "" /\ out = <<>> /\ ph = 0
Choose == ph = 0 /\ ph' = 1 /\ \E o \in Carry \cup Drop : in' = o /\ out' = [attrs |-> o \in Carry, axis |-> o \in AxisCarry]
            /\ (Emit => PrintT(ToJson([op |-> "propagation", in |-> [opclass |-> o], out |-> out'])))
Next == Choose
Spec == Init /\ [][Next]_vars
Disjoint == Carry \cap Drop = {}
=============================================================================
