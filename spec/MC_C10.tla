------------------------------- MODULE MC_C10 -------------------------------
(***************************************************************************)
(* C10: rearranging dimensions preserves every element's label coordinate. *)
(* Machine: choose an array, apply one or two rearranging operations, emit *)
(* the program and the expected array after each step.                     *)
(***************************************************************************)
EXTENDS Arrays, Json

CONSTANTS MaxOps, Big, Emit
VARIABLES cur, ops, trail, ph, a0
vars == <<cur, ops, trail, ph, a0>>

Perms(n) == {p \in [1..n -> 1..n] : \A i, j \in 1..n : i # j => p[i] # p[j]}

Arr(dims, labs) == Fresh(dims, [i \in 1..Len(dims) |-> "i"], labs, [i \in 1..Len(dims) |-> i], "f", 7, 100)
Templates ==
  {Arr(<<>>, <<>>),
   Arr(<<"x">>, <<<<4, 2>>>>),
   Arr(<<"s">>, <<<<6>>>>),
   Arr(<<"x", "y">>, <<<<4, 2>>, <<2, 6, 4>>>>),
   Arr(<<"x", "s">>, <<<<4, 2>>, <<6>>>>),
   Arr(<<"s", "x", "y">>, <<<<6>>, <<4, 2>>, <<2, 6, 4>>>>)}
  \cup (IF Big THEN {Arr(<<"x", "y", "z">>, <<<<4, 2>>, <<2, 6, 4>>, <<8, 2, 4, 6>>>>),
                      Arr(<<"x", "s", "y", "z">>, <<<<4, 2>>, <<6>>, <<2, 6, 4>>, <<8, 2, 4, 6>>>>)} ELSE {})

\* all op records have the same fields
OpRec(op, perm, i, j, name, vals) == [op |-> op, perm |-> perm, i |-> i, j |-> j, name |-> name, vals |-> vals,
                                      tdims |-> <<>>, tlabs |-> <<>>]
BcRec(tdims, tlabs) == [op |-> "broadcast", perm |-> <<>>, i |-> 0, j |-> 0, name |-> "", vals |-> <<>>,
                        tdims |-> tdims, tlabs |-> tlabs]

Init == /\ a0 \in Templates /\ cur = a0 /\ ops = <<>> /\ trail = <<>> /\ ph = 0

\* target axes for broadcast: a permutation of the array's dims plus optionally one new dimension "n"
\* (labels <<10, 12>>); singleton dims are repeated along <<8, 6>>
TLabs(a, d) == IF d = "n" THEN <<10, 12>> ELSE
               LET L == a.labs[DimPos(a, d)] IN IF Len(L) = 1 THEN <<8, 6>> ELSE L
BcTargets(a) ==
  LET n == NDim(a)
      base == {Gather(a.dims, p) : p \in Perms(n)}
      ext == IF HasDim(a, "n") THEN {} ELSE {InsertAt(t, k, "n") : t \in base, k \in 1..(n + 1)}
  IN base \cup ext

Step(o, r) == /\ cur' = r /\ ops' = Append(ops, o) /\ trail' = Append(trail, r) /\ a0' = a0 /\ ph' = ph

DoOp ==
  /\ ph = 0 /\ Len(ops) < MaxOps
  /\ LET n == NDim(cur) IN
     \/ \E p \in Perms(n) : Step(OpRec("transpose", p, 0, 0, "", <<>>), Transpose(cur, p))
     \/ n <= 2 /\ Step(OpRec("T", <<>>, 0, 0, "", <<>>), Transpose(cur, Rev([k \in 1..n |-> k])))
     \/ \E i, j \in 1..n : Step(OpRec("swapaxes", <<>>, i, j, "", <<>>), SwapAxes(cur, i, j))
     \/ \E i \in 1..n : \E st \in 0..n : Step(OpRec("rollaxis", <<>>, i, st, "", <<>>), RollAxis(cur, i, st))
     \/ n < 4 /\ ~HasDim(cur, "n") /\ \E pos \in 0..n : \E vals \in {<<>>, <<10, 12>>, <<10>>} :
           Step(OpRec("newaxis", <<>>, pos, 0, "n", vals), NewAxis(cur, "n", pos, vals))
     \* newaxis(name, values=<int n>): a count - the new dimension has length n, labelled 0..n-1, the data replicated
     \/ n < 4 /\ ~HasDim(cur, "n") /\ \E pos \in 0..n : \E cnt \in 1..2 :
           Step(OpRec("newaxis", <<>>, pos, cnt, "n", <<>>), NewAxis(cur, "n", pos, [k \in 1..cnt |-> k - 1]))
     \/ \E w \in 0..n : (IF w = 0 THEN TRUE ELSE Len(cur.labs[w]) = 1) /\ Step(OpRec("squeeze", <<>>, w, 0, "", <<>>), Squeeze(cur, w))
     \/ \E d \in 1..n : Len(cur.labs[d]) = 1 /\ \E byint \in BOOLEAN : \E single \in BOOLEAN :
           \* (also a "repetition" by one label: the axis is relabelled, nothing is replicated)
           LET vals == IF byint THEN (IF single THEN <<0>> ELSE <<0, 1>>) ELSE (IF single THEN <<8>> ELSE <<8, 6>>) IN
           Step(OpRec("repeat", <<>>, d, IF byint THEN 1 ELSE 0, "", vals), Repeat(cur, d, vals, "i", 0))
     \/ n <= 3 /\ \E t \in BcTargets(cur) :
           LET tl == [k \in 1..Len(t) |-> TLabs(cur, t[k])] IN
           Step(BcRec(t, tl), Broadcast(cur, t, [k \in 1..Len(t) |-> "i"], tl, [k \in 1..Len(t) |-> 0]))

Emit1 ==
  /\ ph = 0 /\ Len(ops) >= 1 /\ ph' = 1 /\ UNCHANGED <<cur, ops, trail, a0>>
  /\ (Emit => PrintT(ToJson([op |-> "reshape_prog", in |-> [a |-> a0, ops |-> ops], out |-> trail])))

Next == DoOp \/ Emit1
Spec == Init /\ [][Next]_vars

(* ---------- theorems ---------- *)
\* a label coordinate identifies a cell: for arrays whose cells are pairwise distinct, rearranging keeps,
\* for every cell, the labels it carries on each named dimension it had before (and still has)
LabelOf(a, k, d) == a.labs[DimPos(a, d)][Coords(Shape(a))[k][DimPos(a, d)]]
CoordPreserved ==
  \A k \in 1..Len(cur.cells) :
     LET k0 == CHOOSE q \in 1..Len(a0.cells) : a0.cells[q] = cur.cells[k] IN
     \A i \in 1..NDim(a0) :
        (HasDim(cur, a0.dims[i]) /\ Len(a0.labs[i]) > 1) => LabelOf(cur, k, a0.dims[i]) = LabelOf(a0, k0, a0.dims[i])
WF == WellFormed(cur) /\ cur.attrs = a0.attrs /\ cur.dtype = a0.dtype
\* every input cell is still present (replication only adds copies)
NoLoss == Rng(cur.cells) = Rng(a0.cells)
\* transpose by p then by the inverse permutation is the identity
TransposeInverse ==
  \A p \in Perms(NDim(cur)) :
     LET inv == [i \in 1..Len(p) |-> CHOOSE j \in 1..Len(p) : p[j] = i] IN Transpose(Transpose(cur, p), inv) = cur
SqueezeNewAxis == (NDim(cur) < 4 /\ ~HasDim(cur, "n")) =>
                    \A pos \in 0..NDim(cur) : Squeeze(NewAxis(cur, "n", pos, <<>>), pos + 1) = cur
=============================================================================
