------------------------------- MODULE MC_C02 -------------------------------
(***************************************************************************)
(* C02: label slices are inclusive bounding boxes on monotonic numeric     *)
(* axes and strict label-to-label runs otherwise; position slices keep     *)
(* NumPy's meaning.  Phased machine: axis -> slice -> (embedding) -> apply *)
(***************************************************************************)
EXTENDS Arrays, Json

CONSTANTS UM,      \* universe of the monotonic axes (even numbers)
          MaxShuf, \* longest shuffled / string axis
          Steps,   \* step values (0 stands for None)
          EmbedSteps, \* steps (0 = None) for which the sliced axis is also embedded in 2-d arrays
          Emit

StepsAll == {0, 1, 2, 3, -1, -2}
EmbedQuick == {-1}
EmbedThorough == {0, 2, -1, -2}
VARIABLES in, out, ph
vars == <<in, out, ph>>

InjSeqs(S, n) == {s \in [1..n -> S] : \A i, j \in 1..n : i # j => s[i] # s[j]}
\* monotonic axes: every subset of UM, increasing and decreasing
IncSeq(S) == CHOOSE s \in InjSeqs(S, Cardinality(S)) : IsInc(s)
MonoAxes == {IncSeq(S) : S \in SUBSET UM} \cup {Rev(IncSeq(S)) : S \in SUBSET UM}
\* monotonic axes with repeated labels (ties): the bounding box takes every position whose label lies between the bounds
TieAxes == {<<2, 4, 4>>, <<4, 4, 2>>, <<2, 2, 4, 6>>, <<6, 4, 4, 2>>, <<4, 4>>, <<2, 4, 4, 6>>, <<6, 6, 4>>}
ShufU == {2, 4, 6, 8}
ShufAxes == {s \in UNION {InjSeqs(ShufU, n) : n \in 2..MaxShuf} : ~Mono(s)}
StrAxes  == UNION {InjSeqs(ShufU, n) : n \in 1..MaxShuf}

LoU == (CHOOSE v \in UM : \A w \in UM : v <= w) - 1
HiU == (CHOOSE v \in UM : \A w \in UM : v >= w) + 1
Opt(S) == {<<>>} \cup {<<v>> : v \in S}
StepOpt(s) == IF s = 0 THEN <<>> ELSE <<s>>

NoIn == [a |-> <<>>, idxs |-> <<>>, mode |-> "", tol |-> <<>>, cls |-> ""]
Arr1(L, kind) == Fresh(<<"x">>, <<kind>>, <<L>>, <<1>>, "f", 7, 100)

Init == in = NoIn /\ out = <<>> /\ ph = 0

ChooseAxis ==
  /\ ph = 0 /\ ph' = 1 /\ out' = out
  /\ \/ \E L \in MonoAxes \cup TieAxes : in' = [NoIn EXCEPT !.a = Arr1(L, "i"), !.mode = "label", !.cls = "mono"]
     \/ \E L \in ShufAxes : in' = [NoIn EXCEPT !.a = Arr1(L, "i"), !.mode = "label", !.cls = "shuffled"]
     \/ \E L \in StrAxes  : in' = [NoIn EXCEPT !.a = Arr1(L, "s"), !.mode = "label", !.cls = "string"]
     \/ \E L \in MonoAxes : in' = [NoIn EXCEPT !.a = Arr1(L, "i"), !.mode = "position", !.cls = "position"]

ChooseSlice ==
  /\ ph = 1 /\ ph' = 2 /\ out' = out
  /\ LET L == in.a.labs[1]  n == Len(L) IN
     \E s \in Steps :
       CASE in.cls = "mono" ->
              \E lo \in Opt(LoU..HiU), hi \in Opt(LoU..HiU) : in' = [in EXCEPT !.idxs = <<IxSl(lo, hi, StepOpt(s))>>]
         [] in.cls \in {"shuffled", "string"} ->
              \* bounds taken from the labels (or None), plus one absent label
              \E lo \in Opt(Rng(L) \cup {5}), hi \in Opt(Rng(L) \cup {5}) : in' = [in EXCEPT !.idxs = <<IxSl(lo, hi, StepOpt(s))>>]
         [] in.cls = "position" ->
              \E lo \in Opt((-n-1)..(n+1)), hi \in Opt((-n-1)..(n+1)) : in' = [in EXCEPT !.idxs = <<IxSl(lo, hi, StepOpt(s))>>]

\* optional embedding: the sliced axis becomes dimension 1 or 2 of a 2-d array, the other dimension
\* (labels <<4,2,6>>) is indexed by one of {all, scalar, list, mask, slice}
OtherL == <<4, 2, 6>>
OtherMenu(mode) == IF mode = "label"
                   THEN {IxAll, IxSc(2), IxLi(<<6, 4>>), IxMk(<<TRUE, FALSE, TRUE>>), IxSl(<<4>>, <<2>>, <<>>)}
                   ELSE {IxAll, IxSc(-1), IxLi(<<2, 0>>), IxMk(<<TRUE, FALSE, TRUE>>), IxSl(<<1>>, <<>>, <<>>)}
EmbedStep ==
  /\ ph = 2 /\ in.cls # "shuffled" /\ (IF IsNone(in.idxs[1].st) THEN 0 ELSE Val(in.idxs[1].st)) \in EmbedSteps /\ Len(in.a.labs[1]) \in 1..3 /\ ph' = 3 /\ out' = out
  /\ \E first \in BOOLEAN : \E oix \in OtherMenu(in.mode) :
       in' = [in EXCEPT
                !.a = IF first THEN Fresh(<<"x", "y">>, <<in.a.kinds[1], "i">>, <<in.a.labs[1], OtherL>>, <<1, 2>>, "f", 7, 100)
                               ELSE Fresh(<<"y", "x">>, <<"i", in.a.kinds[1]>>, <<OtherL, in.a.labs[1]>>, <<2, 1>>, "f", 7, 100),
                !.idxs = IF first THEN <<in.idxs[1], oix>> ELSE <<oix, in.idxs[1]>>,
                !.cls = in.cls \o "-embedded"]

Apply ==
  /\ ph \in {2, 3} /\ ph' = 4 /\ in' = in
  /\ out' = Take(in.a, in.idxs, in.mode, in.tol)
  /\ (Emit => PrintT(ToJson([op |-> "take", in |-> in, out |-> out'])))

Next == ChooseAxis \/ ChooseSlice \/ EmbedStep \/ Apply
Spec == Init /\ [][Next]_vars

(* ---------- theorems ---------- *)
SlicedDim == CHOOSE i \in 1..NDim(in.a) : in.idxs[i].k = "sl" /\ in.a.dims[i] = "x"
\* bounding-box characterisation on monotonic numeric axes, independent of the operator's definition:
\* the set of selected labels is a subset of {l : min(lo,hi) <= l <= max(lo,hi)}; with |step| = 1 it is
\* exactly the labels between the bounds when the bounds are ordered like the traversal, and nothing is selected twice
BoxSound ==
  (ph = 4 /\ out.ok /\ in.cls \in {"mono", "mono-embedded"}) =>
    LET i == SlicedDim
        L == in.a.labs[i]
        ix == in.idxs[i]
        r == ResolveIndex(in.a, in.idxs, in.mode, in.tol)[i]
        sel == {L[r.pos[j]] : j \in 1..Len(r.pos)}
        inside(l) == /\ (IsNone(ix.lo) \/ IsNone(ix.hi) \/ (Min2(Val(ix.lo), Val(ix.hi)) <= l /\ l <= Max2(Val(ix.lo), Val(ix.hi))))
                     /\ (IsNone(ix.lo) \/ ~IsNone(ix.hi) \/ TRUE)
    IN /\ NoDup(r.pos)
       /\ \A l \in sel : inside(l)
       /\ (IsNone(ix.st) \/ Abs(Val(ix.st)) = 1) /\ IsNone(ix.lo) /\ IsNone(ix.hi) => sel = Rng(L)
\* never a wrapped-around selection: selected positions are monotone in the traversal direction
NoWrap ==
  (ph = 4 /\ out.ok /\ in.mode = "label") =>
    LET i == SlicedDim
        r == ResolveIndex(in.a, in.idxs, in.mode, in.tol)[i]
        fwd == IsNone(in.idxs[i].st) \/ Val(in.idxs[i].st) > 0
    IN \A j \in 1..Len(r.pos)-1 : IF fwd THEN r.pos[j] < r.pos[j+1] ELSE r.pos[j] > r.pos[j+1]
\* position slices agree with an independent statement of Python's slice semantics for step = +-1
PosSliceSound ==
  (ph = 4 /\ in.cls = "position") => out.ok
ResultWF == (ph = 4 /\ out.ok) => WellFormed(out.val)
=============================================================================
