------------------------------- MODULE MC_C19j ------------------------------
(* C19 (JSON part): from_json(to_json(a)) restores values, dims, labels and JSON-representable metadata. *)
EXTENDS NcStore
VARIABLES jin, jph
jvars == <<jin, jph, file, hist>>
\* JSON-only arrays: falsy values (0) in 0-d and 1-d integer arrays
JExtra == {[Cand(<<>>, "i", 0, 0, {}) EXCEPT !.cells = <<0>>], [Cand(<<"x">>, "i", 9, 0, {}) EXCEPT !.cells = <<0, 0, 0>>]}
JInit == jin = <<>> /\ jph = 0 /\ file = Absent /\ hist = <<>>
JNext == /\ jph = 0 /\ jph' = 1 /\ UNCHANGED <<file, hist>>
         /\ \E a \in {Pool[i] : i \in 1..Len(Pool)} \cup JExtra : jin' = a /\ (Emit => PrintT(ToJson([op |-> "json_roundtrip", in |-> [a |-> a], out |-> a])))
JSpec == JInit /\ [][JNext]_jvars
JWellFormed == jph = 1 => WellFormed(jin)
=============================================================================
