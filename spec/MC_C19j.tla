------------------------------- MODULE MC_C19j ------------------------------
(* C19 (JSON part): from_json(to_json(a)) restores values, dims, labels and JSON-representable metadata. *)
EXTENDS NcStore
VARIABLES jin, jph
jvars == <<jin, jph, file, hist>>
JInit == jin = <<>> /\ jph = 0 /\ file = Absent /\ hist = <<>>
JNext == /\ jph = 0 /\ jph' = 1 /\ UNCHANGED <<file, hist>>
         /\ \E i \in 1..Len(Pool) : jin' = Pool[i] /\ (Emit => PrintT(ToJson([op |-> "json_roundtrip", in |-> [a |-> Pool[i]], out |-> Pool[i]])))
JSpec == JInit /\ [][JNext]_jvars
JWellFormed == jph = 1 => WellFormed(jin)
=============================================================================
