------------------------------ MODULE TraceOps -------------------------------
(***************************************************************************)
(* Trace validation for the pure operators (code -> spec direction of      *)
(* C01, C02, C03, C07, C10): calls recorded from the real library on       *)
(* randomly driven inputs - larger than the exhaustively enumerated bounds *)
(* - are checked against the reference operators of Arrays.tla.  One step  *)
(* per event; the verdict names the first disagreeing clause.              *)
(* Event: [id, op, in, out] with out = [ok, val, err] as logged.           *)
(***************************************************************************)
EXTENDS Arrays, IOUtils, Json
Events == ndJsonDeserialize(IOEnv.TRACE_FILE)
VARIABLES l, done
tvars == <<l, done>>

Expected(e) ==
  CASE e.op = "take"      -> Take(e.in.a, e.in.idxs, e.in.mode, e.in.tol)
    [] e.op = "put"       -> Put(e.in.a, e.in.idxs, e.in.mode, e.in.tol, e.in.rhs)
    [] e.op = "transpose" -> Ok(Transpose(e.in.a, e.in.perm))
    [] e.op = "swapaxes"  -> Ok(SwapAxes(e.in.a, e.in.i, e.in.j))
    [] e.op = "rollaxis"  -> Ok(RollAxis(e.in.a, e.in.i, e.in.j))
    [] e.op = "newaxis"   -> Ok(NewAxis(e.in.a, e.in.name, e.in.i, e.in.vals))
    [] e.op = "squeeze"   -> Ok(Squeeze(e.in.a, e.in.i))
    [] e.op = "reindex"   -> Reindex(e.in.a, e.in.d, e.in.new, e.in.a.kinds[e.in.d], e.in.fill, e.in.fkind, e.in.raise, e.in.method)
    [] e.op = "reduce"    -> Ok(Reduce(e.in.a, e.in.red, e.in.skipna))

\* results of computing operations carry terms: their values are evaluated by the harness from the fibres printed below
ComputingOps == {"reduce"}
Clause(x, y, computed) ==      \* first disagreeing clause between expected x and logged y (both outcome records)
  IF x.ok # y.ok THEN "outcome"
  ELSE IF ~x.ok THEN (IF x.err = y.err THEN "ok" ELSE "exception")
  ELSE IF x.val.dims # y.val.dims THEN "dims"
  ELSE IF x.val.labs # y.val.labs THEN "labels"
  ELSE IF Len(x.val.cells) # Len(y.val.cells) THEN "size"
  ELSE IF ~computed /\ x.val.cells # y.val.cells THEN "cells"
  ELSE IF ~computed /\ x.val.dtype # y.val.dtype THEN "dtype"
  ELSE IF x.val.attrs # y.val.attrs THEN "attrs"
  ELSE IF x.val.aattrs # y.val.aattrs THEN "axis attrs"
  ELSE "ok"

TInit == l \in 1..Len(Events) /\ done = FALSE
TNext == /\ ~done /\ done' = TRUE /\ l' = l
         /\ LET e == Events[l]
                x == Expected(e)
                c == Clause(x, e.out, e.op \in ComputingOps)
            IN IF c = "ok" THEN (IF e.op \in ComputingOps /\ x.ok THEN PrintT(<<"F", e.id, ToJson(x.val.cells)>>) ELSE PrintT(<<"T", e.id>>))
               ELSE PrintT(<<"X", e.id, c, ToJson(x)>>)
TSpec == TInit /\ [][TNext]_tvars
=============================================================================
