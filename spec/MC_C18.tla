------------------------------- MODULE MC_C18 -------------------------------
(* C18: interp_axis is per-fibre linear interpolation, exact at the nodes. *)
EXTENDS Arrays, Json
CONSTANTS U, Grid, MaxNew, Emit
VARIABLES in, out, ph
vars == <<in, out, ph>>

\* interpolation term for one new point x over the nodes L of a fibre (cells f, same order as L)
Term(L, f, x) ==
  LET n == Len(L)
      p == SortedPerm(L)
      S == Gather(L, p)
  IN IF x < S[1] THEN [k |-> "left", lo |-> NaN, hi |-> NaN, num |-> 0, den |-> 1]
     ELSE IF x > S[n] THEN [k |-> "right", lo |-> NaN, hi |-> NaN, num |-> 0, den |-> 1]
     ELSE IF \E j \in 1..n : S[j] = x
          THEN LET j == CHOOSE j \in 1..n : S[j] = x IN [k |-> "lerp", lo |-> f[p[j]], hi |-> f[p[j]], num |-> 0, den |-> 1]
          ELSE LET j == CHOOSE j \in 1..(n - 1) : S[j] < x /\ x < S[j + 1]
               IN [k |-> "lerp", lo |-> f[p[j]], hi |-> f[p[j + 1]], num |-> x - S[j], den |-> S[j + 1] - S[j]]

InterpAxis(a, d, new) ==
  Mk(a.dims, [a.kinds EXCEPT ![d] = "f"], [a.labs EXCEPT ![d] = new], a.aattrs, "f", a.attrs,
     LAMBDA c : Term(a.labs[d], [q \in 1..Len(a.labs[d]) |-> At(a, [c EXCEPT ![d] = q])], new[c[d]]))

\* interp_like: every dimension of a shared with the template, in a's order (terms of terms are avoided:
\* generated templates share exactly one or two dims and the second interpolation is applied to the spec's own
\* intermediate result only when the first was the identity on that fibre)
InjSeqs(S, n) == {s \in [1..n -> S] : \A i, j \in 1..n : i # j => s[i] # s[j]}
\* ... plus node lists whose first label is the smallest and whose last is the largest while the middle is shuffled (a
\* permutation that a "contiguous block" shortcut would mistake for the identity)
AnchoredNodes == {<<4, 12, 8, 16>>, <<2, 12, 6, 8, 14>>}
Nodes == UNION {InjSeqs(U, n) : n \in 1..Cardinality(U)} \cup AnchoredNodes
NewSeqs == UNION {[1..n -> Grid] : n \in 1..MaxNew}

NoIn == [a |-> <<>>, d |-> 0, new |-> <<>>, fills |-> FALSE, issorted |-> FALSE]
Init == in = NoIn /\ out = <<>> /\ ph = 0
Other1 == <<4, 2>>
Other2 == <<2, 6, 4>>
Arr(L, nd, p, dt) ==
  LET dims == InsertAt(SubSeq(<<"p", "q">>, 1, nd - 1), p, "x")
      labs == [i \in 1..nd |-> IF dims[i] = "x" THEN L ELSE IF dims[i] = "p" THEN Other1 ELSE Other2]
  IN Fresh(dims, [i \in 1..nd |-> "i"], labs, [i \in 1..nd |-> i], dt, 7, 100)

Choose ==
  /\ ph = 0 /\ ph' = 1 /\ out' = out
  /\ \E L \in Nodes : \E nd \in 1..3 : \E p \in 1..3 : \E dt \in {"f", "i"} : \E new \in NewSeqs : \E fl \in BOOLEAN : \E srt \in BOOLEAN :
       /\ p <= nd
       /\ (nd = 3 => Len(L) \in {3, 5} /\ dt = "f" /\ Len(new) = MaxNew)
       /\ (srt => IsInc(L) /\ ~fl)
       /\ in' = [a |-> Arr(L, nd, p, dt), d |-> p, new |-> new, fills |-> fl, issorted |-> srt]
Apply ==
  /\ ph = 1 /\ ph' = 2 /\ in' = in
  /\ out' = InterpAxis(in.a, in.d, in.new)
  /\ (Emit => PrintT(ToJson([op |-> "interp_axis", in |-> in, out |-> out'])))

\* interp_like: a(x,y) against templates sharing x, y, both (in either order) or with an extra dimension; the
\* result interpolates every shared dimension in a's order (cells become nested terms)
LikeA == Fresh(<<"x", "y">>, <<"i", "i">>, << <<8, 4>>, <<4, 12, 8>> >>, <<1, 2>>, "f", 7, 100)
ChooseLike ==
  /\ ph = 0 /\ ph' = 3 /\ out' = out
  /\ \E tx \in {<<>>, <<4, 6>>, <<7, 2, 8>>, <<4, 8>>} : \E ty \in {<<>>, <<6, 12>>, <<14, 4>>} : \E swap \in BOOLEAN : \E extra \in BOOLEAN :
       LET dl == (IF tx = <<>> THEN <<>> ELSE << <<"x", tx>> >>) \o (IF ty = <<>> THEN <<>> ELSE << <<"y", ty>> >>)
                 \o (IF extra THEN << <<"w", <<2, 4>>>> >> ELSE <<>>)
           dl2 == IF swap THEN Rev(dl) ELSE dl
       IN /\ (tx # <<>> \/ ty # <<>>)
          /\ in' = [NoIn EXCEPT !.a = LikeA, !.new = <<tx, ty>>,
                       !.d = 0, !.fills = swap,
                       !.issorted = extra]
ApplyLike ==
  /\ ph = 3 /\ ph' = 4 /\ in' = in
  /\ LET r1 == IF in.new[1] = <<>> THEN in.a ELSE InterpAxis(in.a, 1, in.new[1])
         r2 == IF in.new[2] = <<>> THEN r1 ELSE InterpAxis(r1, 2, in.new[2])
     IN out' = r2
  /\ (Emit => PrintT(ToJson([op |-> "interp_like", in |-> in, out |-> out'])))
\* Dataset variants: variables a(x,y), b(y,x) and c(y) (lacking x); interp_axis / interp_like along x with in-range points.
\* Every variable that has x equals the DimArray interpolation (InterpAxis), c is unchanged, metadata is carried.
ChooseDs ==
  /\ ph = 0 /\ ph' = 5 /\ out' = out
  /\ \E new \in {<<4, 6>>, <<6, 8, 5>>, <<8>>, <<4, 8>>} : \E like \in BOOLEAN : \E bypos \in BOOLEAN :
       in' = [NoIn EXCEPT !.a = LikeA, !.new = new, !.d = 1, !.fills = like, !.issorted = bypos]
ApplyDs ==
  /\ ph = 5 /\ ph' = 6 /\ in' = in
  /\ out' = InterpAxis(in.a, 1, in.new)
  /\ (Emit => PrintT(ToJson([op |-> "interp_ds", in |-> in, out |-> out'])))
Next == Choose \/ Apply \/ ChooseLike \/ ApplyLike \/ ChooseDs \/ ApplyDs
Spec == Init /\ [][Next]_vars

(* ---------- theorems ---------- *)
\* exact at the nodes, fills outside the label range, weights in (0,1) between bracketing neighbours
ExactAtNodes ==
  ph = 2 => \A c \in Rng(Coords(Shape(out))) :
     LET t == At(out, c)  x == in.new[c[in.d]]  L == in.a.labs[in.d] IN
     /\ (x \in Rng(L) => t.k = "lerp" /\ t.num = 0 /\ t.lo = At(in.a, [c EXCEPT ![in.d] = FirstPos(L, x)[1]]))
     /\ (t.k = "left" <=> \A l \in Rng(L) : x < l)
     /\ (t.k = "right" <=> \A l \in Rng(L) : x > l)
     /\ (t.k = "lerp" /\ t.num # 0 => 0 < t.num /\ t.num < t.den)
AxisIsNew == ph = 2 => (out.labs[in.d] = in.new /\ \A i \in 1..NDim(in.a) : i # in.d => out.labs[i] = in.a.labs[i]) /\ out.attrs = in.a.attrs
\* the result does not depend on the order in which the labels are stored
OrderIndependent ==
  ph = 1 => LET a == in.a  d == in.d
                b == Mk(a.dims, a.kinds, [a.labs EXCEPT ![d] = Rev(a.labs[d])], a.aattrs, a.dtype, a.attrs,
                        LAMBDA c : At(a, [c EXCEPT ![d] = Len(a.labs[d]) + 1 - c[d]]))
            IN InterpAxis(a, d, in.new) = InterpAxis(b, d, in.new)
=============================================================================
