---------------------------- MODULE TraceDataset -----------------------------
(***************************************************************************)
(* Trace validation for C13: executions recorded from the real Dataset     *)
(* (harness/drivers) are checked, step by step, to be behaviours of        *)
(* DatasetHeap: each logged call must be an enabled action with the logged *)
(* arguments, with the same outcome class, leading to a spec state whose   *)
(* projection equals the logged projection of the real object.             *)
(***************************************************************************)
EXTENDS DatasetHeap, IOUtils

Traces == ndJsonDeserialize(IOEnv.TRACE_FILE)
VARIABLES tid, l
tvars == <<objs, dsaxes, vars, direct, hist, tid, l>>

TInit == Init /\ tid \in 1..Len(Traces) /\ l = 1
Ev == Traces[tid].events[l]

Match(e) ==
  CASE e.act = "setvar"       -> SetVar(e.args.k, e.args.c)
    [] e.act = "delvar"       -> DelVar(e.args.k)
    [] e.act = "rename_ds"    -> RenameViaDs(e.args.d, e.args.n)
    [] e.act = "rename_var"   -> RenameViaVar(e.args.k, e.args.j, e.args.n)
    \* logged as old name -> new name (the order of a Dataset's axes is not promised by C13; SetDims is positional in the machine's order)
    [] e.act = "set_dims"     -> /\ Len(e.args.olds) = Len(dsaxes) /\ \A q \in 1..Len(dsaxes) : \E r \in 1..Len(e.args.olds) : e.args.olds[r] = NameOf(dsaxes[q])
                                 /\ SetDims([q \in 1..Len(dsaxes) |-> e.args.names[CHOOSE r \in 1..Len(e.args.olds) : e.args.olds[r] = NameOf(dsaxes[q])]])
    [] e.act = "rename_axes"  -> RenameAxes(e.args.d, e.args.n)
    [] e.act = "rename_keys"  -> (RenameKeys(e.args.k, e.args.n) \/ RenameKeysOnto(e.args.k, e.args.n))
    [] e.act = "set_axis"     -> SetAxisValues(e.args.d, e.args.labs)
    [] e.act = "relabel_one"  -> RelabelOne(e.args.d, e.args.i, e.args.v)
    [] e.act = "replace_axis" -> ReplaceAxisObject(e.args.d, e.args.labs)
    [] e.act = "append_axis"  -> AppendAxis(e.args.d, e.args.labs)
    [] e.act = "set_axis_var" -> SetAxisViaVar(e.args.k, e.args.j, e.args.labs)
    [] e.act = "relabel_one_var" -> RelabelOneViaVar(e.args.k, e.args.j, e.args.i, e.args.v)
    [] e.act = "rename_var_set_axis" -> RenameViaVarSetAxis(e.args.k, e.args.j, e.args.n)
    [] e.act = "continue_copy" -> ContinueOn("copy", e.args)
    [] e.act = "continue_rename_axes_copy" -> ContinueOn("rename_axes_copy", e.args)
    [] e.act = "continue_set_axis_copy" -> ContinueOn("set_axis_copy", e.args)
    [] e.act = "continue_rename_keys_copy" -> ContinueOn("rename_keys_copy", e.args)
    [] e.act \in {"copy", "cross_assign", "rename_axes_copy", "set_axis_copy", "rename_keys_copy", "dim_variable"} -> Pure(e.act, e.args)

\* the Dataset's dimensions are compared as a set of (name, labels); the variables (own dimension order, labels, cells, sharing) exactly
DimSet(p) == {<<p.dims[i], p.labs[i]>> : i \in 1..Len(p.dims)}
Agrees == /\ hist'[Len(hist')].ok = Ev.ok
          /\ Len(Proj'.dims) = Len(Ev.post.dims) /\ Len(Ev.post.labs) = Len(Ev.post.dims) /\ DimSet(Proj') = DimSet(Ev.post)
          /\ Proj'.vars = Ev.post.vars
TNext ==
  /\ l >= 1 /\ l <= Len(Traces[tid].events)
  /\ Match(Ev)
  /\ tid' = tid
  /\ IF Agrees THEN l' = l + 1 /\ PrintT(<<"T", tid, l>>)
     ELSE l' = 0 /\ PrintT(<<"X", tid, l, ToJson([ok |-> hist'[Len(hist')].ok, post |-> Proj'])>>)
TSpec == TInit /\ [][TNext]_tvars
\* the invariants of the machine are evaluated on every state of every validated trace
=============================================================================
