------------------------------- MODULE MC_C20 -------------------------------
(***************************************************************************)
(* C20: on-disk netCDF access is equivalent to in-memory access.           *)
(* A fixed file content (variables of the NcStore pool) and               *)
(*  - "read":   index tuple x mode x tolerance  -> Take(Load(f, v), ...)   *)
(*  - "assign": 1-2 on-disk assignments, then a full read -> Put(...)      *)
(*  - "append": writes beyond the end of an unlimited dimension extend the *)
(*              axis with the supplied labels                              *)
(*  - "multi":  several files read at once = stack / concatenate of the    *)
(*              single reads (new axis / existing axis), with keys         *)
(***************************************************************************)
EXTENDS Arrays, Json
CONSTANTS Emit, Deep          \* Deep: also a 3-d variable (float, str and int labels) in the read / assign families
VARIABLES in, out, ph
vars == <<in, out, ph>>

V(dims, kinds, labs, dtype, base, nanpos) ==
  LET a == Fresh(dims, kinds, labs, [i \in 1..Len(dims) |-> 0], dtype, 0, base)
  IN [a EXCEPT !.cells = [k \in 1..Len(a.cells) |-> IF k \in nanpos THEN NaN ELSE a.cells[k]]]
FileVars == [a |-> V(<<"x", "y">>, <<"i", "f">>, << <<4, 2, 6>>, <<3, 7>> >>, "f", 100, {2}),
             b |-> V(<<"z", "x">>, <<"s", "i">>, << <<6, 2>>, <<4, 2, 6>> >>, "j", 200, {}),
             n |-> V(<<"x">>, <<"i">>, << <<4, 2, 6>> >>, "i", 300, {}),
             m |-> V(<<"w">>, <<"f">>, << <<2, 6, 10>> >>, "f", 500, {}),
             c |-> V(<<>>, <<>>, <<>>, "f", 400, {}),
             d |-> V(<<"y", "z", "x">>, <<"f", "s", "i">>, << <<3, 7>>, <<6, 2>>, <<4, 2, 6>> >>, "f", 600, {3})]
VarNames == {"a", "b", "n", "m", "c"} \cup (IF Deep THEN {"d"} ELSE {})

LabelMenu(L) == {IxAll, IxSc(L[Len(L)]), IxSc(L[1] + 1), IxLi(Rev(L)), IxLi(<<L[1]>>), IxLi(<<>>), IxLi(<<L[1], L[1]>>),
                 IxMk([i \in 1..Len(L) |-> i # 1 \/ Len(L) = 1]), IxSl(<<L[1]>>, <<L[Len(L)]>>, <<>>), IxSl(<<>>, <<L[1]>>, <<>>)}
                \cup (IF Len(L) >= 3 THEN {IxLi(<<L[Len(L)], L[1], L[2]>>),         \* a rotation: neither sorted nor reversed
                                            IxLi(<<L[1], L[1], L[Len(L)]>>)}          \* first and last position at the ends, a repeat and a gap between
                      ELSE {})
PosMenu(n) == {IxAll, IxSc(n - 1), IxSc(-n), IxSc(n), IxLi([i \in 1..n |-> n - i]), IxLi(<<0>>), IxLi(<<>>), IxMk([i \in 1..n |-> i # 1 \/ n = 1]),
               IxLi(<<-1, 0>>), IxLi(IF n >= 2 THEN <<-2, -1>> ELSE <<-1>>), IxLi([i \in 1..n |-> i - 1]),
               IxSl(<<1>>, <<>>, <<>>), IxSl(<<>>, <<-1>>, <<>>), IxSl(<<>>, <<>>, <<-1>>)}
              \cup (IF n >= 3 THEN {IxLi(<<n - 1, 0, 1>>), IxLi(<<1, 2, 0>>), IxLi(<<0, 0, n - 1>>)} ELSE {})
RECURSIVE IdxTuples(_, _)
IdxTuples(labs, mode) ==
  IF labs = <<>> THEN {<<>>}
  ELSE {<<ix>> \o t : ix \in (IF mode = "label" THEN LabelMenu(Head(labs)) ELSE PosMenu(Len(Head(labs)))), t \in IdxTuples(Tail(labs), mode)}
NoRepeat(idxs) == \A i \in 1..Len(idxs) : idxs[i].k = "li" => NoDup(idxs[i].l)
SelShape(a, idxs, mode) ==
  LET r == ResolveIndex(a, idxs, mode, <<>>)
      kept == SelectSeq(Idx(a.dims), LAMBDA i : ~r[i].drop)
  IN IF \E i \in 1..Len(r) : ~r[i].ok THEN <<>> ELSE [j \in 1..Len(kept) |-> Len(r[kept[j]].pos)]
MkRhs(shape, kind, base) == [shape |-> shape, cells |-> [k \in 1..Prod(shape) |-> base + k], kind |-> kind]

NoIn == [fam |-> "", v |-> "", idxs |-> <<>>, mode |-> "", tol |-> <<>>, rhs |-> <<>>, idxs2 |-> <<>>, rhs2 |-> <<>>, two |-> FALSE,
         n0 |-> 0, steps |-> <<>>, nd |-> 1, cfg |-> <<>>]
Init == in = NoIn /\ out = <<>> /\ ph = 0

Read ==
  /\ ph = 0 /\ ph' = 1
  /\ \E v \in VarNames : \E mode \in {"label", "position"} : \E idxs \in IdxTuples(FileVars[v].labs, mode) :
       /\ in' = [NoIn EXCEPT !.fam = "read", !.v = v, !.idxs = idxs, !.mode = mode, !.cfg = FileVars[v]]
       /\ out' = Take(FileVars[v], idxs, mode, <<>>)
ReadTol ==
  /\ ph = 0 /\ ph' = 1
  /\ \E q \in 1..11 : \E t \in {1, 2, 100000} : \E aslist \in BOOLEAN :
       LET ix == IF aslist THEN IxLi(<<q, 6>>) ELSE IxSc(q) IN
       /\ in' = [NoIn EXCEPT !.fam = "read", !.v = "m", !.idxs = <<ix>>, !.mode = "label", !.tol = <<t>>, !.cfg = FileVars["m"]]
       /\ out' = Take(FileVars["m"], <<ix>>, "label", <<t>>)
Assign ==
  /\ ph = 0 /\ ph' = 1
  /\ \E v \in ({"a", "b", "n"} \cup (IF Deep THEN {"d"} ELSE {})) : \E mode \in {"label", "position"} : \E idxs \in IdxTuples(FileVars[v].labs, mode) : \E full \in BOOLEAN :
       LET a == FileVars[v]
           sh == SelShape(a, idxs, mode)
           rhs == MkRhs(IF full THEN sh ELSE <<>>, IF a.dtype = "j" THEN "i" ELSE a.dtype, 900)
           r1 == Put(a, idxs, mode, <<>>, rhs)
       IN /\ NoRepeat(idxs)
          /\ in' = [NoIn EXCEPT !.fam = "assign", !.v = v, !.idxs = idxs, !.mode = mode, !.rhs = rhs, !.cfg = a]
          /\ out' = r1
\* assignment through the on-disk handle with a tolerance (nearest label within tol)
AssignTol ==
  /\ ph = 0 /\ ph' = 1
  /\ \E q \in 1..11 : \E t \in {1, 2, 100000} : \E aslist \in BOOLEAN :
       LET a == FileVars["m"]
           ix == IF aslist THEN IxLi(<<q>>) ELSE IxSc(q)
           rhs == MkRhs(<<>>, "f", 900)
       IN /\ in' = [NoIn EXCEPT !.fam = "assign", !.v = "m", !.idxs = <<ix>>, !.mode = "label", !.tol = <<t>>, !.rhs = rhs, !.cfg = a]
          /\ out' = Put(a, <<ix>>, "label", <<t>>, rhs)
\* two assignments in a row on variable a, then a full read
Assign2 ==
  /\ ph = 0 /\ ph' = 1
  /\ \E i1 \in {<<IxSc(2), IxAll>>, <<IxLi(<<6, 4>>), IxSc(7)>>, <<IxAll, IxSl(<<3>>, <<3>>, <<>>)>>} :
     \E i2 \in {<<IxSc(-1), IxAll>>, <<IxLi(<<0, 2>>), IxLi(<<1>>)>>, <<IxSl(<<>>, <<>>, <<-1>>), IxSc(0)>>} :
       LET a == FileVars["a"]
           rhs1 == MkRhs(<<>>, "f", 900)
           r1 == Put(a, i1, "label", <<>>, rhs1)
           rhs2 == MkRhs(SelShape(a, i2, "position"), "f", 950)
           r2 == Put(r1.val, i2, "position", <<>>, rhs2)
       IN /\ in' = [NoIn EXCEPT !.fam = "assign", !.v = "a", !.idxs = i1, !.mode = "label", !.rhs = rhs1, !.idxs2 = i2, !.rhs2 = rhs2, !.two = TRUE, !.cfg = a]
          /\ out' = r2
\* dataset-level reads: one index on one dimension of a file whose two variables list the dims in different orders
DsRead ==
  /\ ph = 0 /\ ph' = 1
  /\ \E d \in 1..2 : \E mode \in {"label", "position"} :
     \E ix \in (IF mode = "label" THEN LabelMenu(FileVars["a"].labs[d]) ELSE PosMenu(Len(FileVars["a"].labs[d]))) :
       \* (a scalar index on the dataset-level handle drops the dimension from every variable and from the Dataset: F38)
       /\ in' = [NoIn EXCEPT !.fam = "dsread", !.v = "a", !.idxs = <<ix>>, !.mode = mode, !.nd = d, !.cfg = FileVars["a"]]
       /\ out' = Take(FileVars["a"], [i \in 1..2 |-> IF i = d THEN ix ELSE IxAll], mode, <<>>)
\* unlimited dimension t: variable u(t) or u(t, x); n0 initial slices, then appended slabs with their labels
AppendUnl ==
  /\ ph = 0 /\ ph' = 1
  /\ \E n0 \in {0, 2} : \E nd \in {1, 2} : \E steps \in {<<1>>, <<2>>, <<1, 1>>, <<1, 2>>, <<2, 1>>} : \E kind \in {"s", "i"} :
       LET total == n0 + (IF Len(steps) = 1 THEN steps[1] ELSE steps[1] + steps[2])
           tl == [k \in 1..total |-> 2 * k]
           xl == <<4, 2, 6>>
           dims == IF nd = 1 THEN <<"t">> ELSE <<"t", "x">>
       IN /\ in' = [NoIn EXCEPT !.fam = "append", !.n0 = n0, !.steps = steps, !.nd = nd, !.mode = kind]
          /\ out' = Ok(Fresh(dims, IF nd = 1 THEN <<kind>> ELSE <<kind, "i">>, IF nd = 1 THEN <<tl>> ELSE <<tl, xl>>,
                             [i \in 1..nd |-> 0], "f", 0, 100))
\* several files: same variable over (x, y); the x axes are equal, permuted or overlapping; read along a new or an existing axis
Multi ==
  /\ ph = 0 /\ ph' = 1
  /\ \E nf \in 2..3 : \E rel \in {"equal", "differ"} : \E ax \in {"new", "y", "x"} : \E al \in BOOLEAN : \E so \in BOOLEAN : \E keys \in BOOLEAN :
       /\ (so => al) /\ (ax # "new" => ~keys)
       /\ in' = [NoIn EXCEPT !.fam = "multi", !.cfg = [nf |-> nf, rel |-> rel, axis |-> ax, align |-> al, sort |-> so, keys |-> keys, rekey |-> ""]]
       \* only the x axes differ between files: joining along x itself needs no alignment
       /\ out' = [ok |-> (rel = "equal" \/ al \/ ax = "x"), val |-> <<>>, err |-> IF rel = "equal" \/ al \/ ax = "x" THEN "" ELSE "ValueError"]
\* keys together with an existing axis: the files hold consecutive pieces of x; the concatenation is re-indexed on the given keys
\* (the same labels in another order, a subset, or with a label no file has)
MultiRekey ==
  /\ ph = 0 /\ ph' = 1
  /\ \/ \E nf \in 2..3 : \E rk \in {"sorted", "reversed", "subset", "extra"} :
          /\ in' = [NoIn EXCEPT !.fam = "multi", !.cfg = [nf |-> nf, rel |-> "pieces", axis |-> "x", align |-> FALSE, sort |-> FALSE, keys |-> TRUE, rekey |-> rk]]
          /\ out' = [ok |-> TRUE, val |-> <<>>, err |-> ""]
     \* the joining axis is a dimension of the files that the read itself removes (indices = {x: label}, or only variables without x):
     \* what is read has no x any more, so the pieces are stacked along a new axis x labelled by the keys
     \/ \E nf \in 2..3 : \E rk \in {"dropx-index", "dropx-names"} : \E rel \in {"equal", "differ"} :
          /\ in' = [NoIn EXCEPT !.fam = "multi", !.cfg = [nf |-> nf, rel |-> rel, axis |-> "x", align |-> FALSE, sort |-> FALSE, keys |-> TRUE, rekey |-> rk]]
          /\ out' = [ok |-> TRUE, val |-> <<>>, err |-> ""]
\* a 0-d variable on disk: only the empty index addresses it.  Any other index (a position, a label, a list, a slice with bounds,
\* a dimension it does not have, two indices) is rejected as on the loaded array - and an assignment through it leaves the file as it was
ZeroD ==
  /\ ph = 0 /\ ph' = 1
  /\ \E k \in {"sc", "li", "sl", "str", "dict", "two", "empty"} : \E w \in BOOLEAN : \E mode \in {"label", "position"} :
       /\ in' = [NoIn EXCEPT !.fam = "zerod", !.v = k, !.two = w, !.mode = mode]
       /\ out' = [ok |-> k = "empty", val |-> <<>>, err |-> IF k = "empty" THEN "" ELSE "IndexError"]
Next == (Read \/ ReadTol \/ DsRead \/ Assign \/ AssignTol \/ Assign2 \/ AppendUnl \/ Multi \/ MultiRekey \/ ZeroD) /\ (Emit => PrintT(ToJson([op |-> "ondisk", in |-> in', out |-> out'])))
Spec == Init /\ [][Next]_vars
Sane == (ph = 1 /\ in.fam \in {"read", "assign"} /\ out.ok) => WellFormed(out.val)
=============================================================================
