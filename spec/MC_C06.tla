------------------------------- MODULE MC_C06 -------------------------------
(* C06: align() is a set union / intersection that neither invents nor loses data. *)
EXTENDS Arrays, Json
CONSTANTS U, MaxArr, Emit
VARIABLES in, out, ph
vars == <<in, out, ph>>

InjSeqs(S, n) == {s \in [1..n -> S] : \A i, j \in 1..n : i # j => s[i] # s[j]}
Axes1 == UNION {InjSeqs(U, n) : n \in 0..Cardinality(U)}
\* later arrays may also carry a label between those of the first (non-integral when they are float axes)
AxesB == UNION {InjSeqs(U \cup {3}, n) : n \in 0..3}
NoIn == [fam |-> "", arrs |-> <<>>, join |-> "outer", sort |-> FALSE, axis |-> <<>>]
A1(L, k) == Fresh(<<"x">>, <<"i">>, <<L>>, <<k>>, "i", k, 100 * k)

XMenu == {<<2, 4>>, <<4, 2>>, <<4, 6>>, <<6, 2, 4>>}
YMenu == {<<2, 4, 6>>, <<6, 2>>}
\* 2-d configurations: second array over (y,x), (x), (y,z) or (y)
Second(kind, xl, yl) ==
  CASE kind = "yx" -> Fresh(<<"y", "x">>, <<"i", "i">>, <<yl, xl>>, <<3, 4>>, "f", 2, 200)
    [] kind = "x"  -> Fresh(<<"x">>, <<"i">>, <<xl>>, <<4>>, "f", 2, 200)
    [] kind = "yz" -> Fresh(<<"y", "z">>, <<"i", "i">>, <<yl, <<4, 2>>>>, <<3, 5>>, "f", 2, 200)
    [] kind = "y"  -> Fresh(<<"y">>, <<"i">>, <<yl>>, <<3>>, "f", 2, 200)

Init == in = NoIn /\ out = <<>> /\ ph = 0

ChooseArrays ==
  /\ ph = 0 /\ ph' = 1 /\ out' = out
  /\ \/ \E n \in 1..MaxArr : \E Ls \in [1..n -> AxesB] :
          /\ Ls[1] \in Axes1 /\ (n >= 3 => Ls[3] \in Axes1)
          /\ in' = [NoIn EXCEPT !.fam = "1d", !.arrs = [k \in 1..n |-> A1(Ls[k], k)]]
     \/ \E x1, x2 \in XMenu : \E y1, y2 \in YMenu : \E kind \in {"yx", "x", "yz", "y"} : \E dt \in {"i", "f"} :
          in' = [NoIn EXCEPT !.fam = "2d",
                   !.arrs = <<Fresh(<<"x", "y">>, <<"i", "i">>, <<x1, y1>>, <<1, 2>>, dt, 1, 100), Second(kind, x2, y2)>>]

ChooseOpts ==
  /\ ph = 1 /\ ph' = 2 /\ out' = out
  /\ \E j \in {"outer", "inner"} : \E s \in BOOLEAN : \E ax \in {<<>>, <<"x">>, <<"y">>} :
        /\ (in.fam = "1d" => ax # <<"y">>)
        /\ in' = [in EXCEPT !.join = j, !.sort = s, !.axis = ax]

Apply ==
  /\ ph = 2 /\ ph' = 3 /\ in' = in
  /\ out' = Align(in.arrs, in.join, in.sort, in.axis)
  /\ (Emit => PrintT(ToJson([op |-> "align", in |-> in, out |-> out'])))

Next == ChooseArrays \/ ChooseOpts \/ Apply
Spec == Init /\ [][Next]_vars

(* ---------- theorems ---------- *)
Dims == IF in.axis = <<>> THEN AllDims(in.arrs) ELSE in.axis
\* outputs have identical axes on every aligned shared dimension, equal to the union / intersection, no duplicates
SharedAxes ==
  ph = 3 => \A k \in 1..Len(Dims) : \A i, j \in 1..Len(in.arrs) :
      (HasDim(in.arrs[i], Dims[k]) /\ HasDim(in.arrs[j], Dims[k])) =>
         LET li == out.arrs[i].labs[DimPos(out.arrs[i], Dims[k])]
             lj == out.arrs[j].labs[DimPos(out.arrs[j], Dims[k])]
             Ls == [q \in 1..Len(SelectSeq(Idx(in.arrs), LAMBDA z : HasDim(in.arrs[z], Dims[k]))) |->
                      LET z == SelectSeq(Idx(in.arrs), LAMBDA zz : HasDim(in.arrs[zz], Dims[k]))[q] IN in.arrs[z].labs[DimPos(in.arrs[z], Dims[k])]]
         IN /\ li = lj
            /\ IF in.join = "outer" THEN UnionOK(Ls, in.sort, li) ELSE InterOK(Ls, in.sort, li)
\* every array keeps its values at their labels: a cell of the output at labels that existed in the input is
\* the input's cell at those labels, NaN elsewhere; nothing is invented
KeepsData ==
  ph = 3 => \A i \in 1..Len(in.arrs) :
      LET a == in.arrs[i]  r == out.arrs[i] IN
      /\ r.dims = a.dims /\ WellFormed(r)
      /\ \A c \in Rng(Coords(Shape(r))) :
           LET src == [d \in 1..NDim(a) |-> FirstPos(a.labs[d], r.labs[d][c[d]])]
           IN At(r, c) = IF \E d \in 1..NDim(a) : src[d] = <<>> THEN NaN ELSE At(a, [d \in 1..NDim(a) |-> src[d][1]])
      /\ (in.join = "inner" => NaN \notin Rng(r.cells))
\* dimensions not being aligned are left alone
OthersUntouched ==
  ph = 3 => \A i \in 1..Len(in.arrs) : \A d \in 1..NDim(in.arrs[i]) :
      (\A k \in 1..Len(Dims) : Dims[k] # in.arrs[i].dims[d]) => out.arrs[i].labs[d] = in.arrs[i].labs[d]
=============================================================================
