------------------------------- MODULE MC_C17 -------------------------------
(* C17: axis-wise selection and missing-value handling keep slices with their labels. *)
EXTENDS Arrays, Json
CONSTANTS Big, Emit
VARIABLES in, out, ph
vars == <<in, out, ph>>

FillId2 == 888
\* whole slices along d selected by position list pos (repeats allowed)
TakeAxisPos(a, d, pos) ==
  Mk(a.dims, a.kinds, [a.labs EXCEPT ![d] = Gather(a.labs[d], pos)], a.aattrs, a.dtype, a.attrs,
     LAMBDA c : At(a, [c EXCEPT ![d] = pos[c[d]]]))
SortAxis(a, d, keyvals) == TakeAxisPos(a, d, SortedPerm(keyvals))
\* number of valid (non-NaN) cells of slice i along d
Valid(a, d, i) == Cardinality({k \in 1..Len(a.cells) : Coords(Shape(a))[k][d] = i /\ a.cells[k] # NaN})
SliceSize(a, d) == Prod(Shape(a)) \div Len(a.labs[d])
DropNa(a, d, minvalid) ==
  TakeAxisPos(a, d, SelectSeq(Idx(a.labs[d]), LAMBDA i : Valid(a, d, i) >= minvalid))
FillNa(a, fid, fkind) ==
  [a EXCEPT !.cells = [k \in 1..Len(a.cells) |-> IF a.cells[k] = NaN THEN fid ELSE a.cells[k]],
            !.dtype = IF a.dtype = "i" /\ fkind = "f" /\ NaN \in Rng(a.cells) THEN "f" ELSE a.dtype]
\* set to NaN the cells whose value is in vals, or selected by the mask; integer data promoted to float
SetNa(a, sel) ==
  [a EXCEPT !.cells = [k \in 1..Len(a.cells) |-> IF sel[k] THEN NaN ELSE a.cells[k]],
            !.dtype = IF a.dtype \in {"i", "b"} /\ (\E k \in 1..Len(sel) : sel[k]) THEN "f" ELSE a.dtype]

(* ---------- scenarios ---------- *)
DimNames == <<"x", "y", "z", "w">>
Pool == << <<4, 2, 6, 8>>, <<2, 6, 4>>, <<6, 2>>, <<4, 8>> >>
Shapes == {<<3>>, <<2>>, <<1>>, <<3, 2>>, <<2, 2>>, <<1, 2>>}
          \cup (IF Big THEN {<<3, 2, 2>>, <<2, 1, 2>>, <<4>>, <<2, 3>>, <<4, 2>>, <<2, 2, 1, 2>>, <<2, 3, 2>>} ELSE {<<2, 2, 2>>})
Arr(shape, dt) == Fresh(SubSeq(DimNames, 1, Len(shape)), [i \in 1..Len(shape) |-> "i"],
                        [i \in 1..Len(shape) |-> SubSeq(Pool[i], 1, shape[i])], [i \in 1..Len(shape) |-> i], dt, 7, 100)
Patterns(a) ==
  LET n == Len(a.cells)  cs == Coords(Shape(a))
  IN IF n <= (IF Big THEN 6 ELSE 4) THEN SUBSET (1..n)
     ELSE {{}, {1}, {n}, 1..n, {k \in 1..n : k % 3 = 0}, {2, 3}}
          \cup {{k \in 1..n : cs[k][d] = 1} : d \in 1..NDim(a)} \cup {{k \in 1..n : cs[k][d] # 1} : d \in 1..NDim(a)}
WithNaN(a, S) == [a EXCEPT !.cells = [k \in 1..Len(a.cells) |-> IF k \in S THEN NaN ELSE a.cells[k]]]
\* duplicated values for setna: cells take values from {5, 7} (and NaN for float data)
ValArrays(a) == IF Len(a.cells) <= 4 THEN {[a EXCEPT !.cells = v] : v \in [1..Len(a.cells) -> {5, 7, 9}]}
                ELSE {[a EXCEPT !.cells = [k \in 1..Len(a.cells) |-> 5 + 2 * (k % 3)]], [a EXCEPT !.cells = [k \in 1..Len(a.cells) |-> 7]]}
Perms(n) == {p \in [1..n -> 1..n] : \A i, j \in 1..n : i # j => p[i] # p[j]}

NoIn == [op |-> "", a |-> <<>>, d |-> 0, keyvals |-> <<>>, haskey |-> FALSE, idx |-> <<>>, mode |-> "", mask |-> <<>>, minvalid |-> <<>>,
         fkind |-> "", vals |-> <<>>, form |-> ""]
Init == in = NoIn /\ out = <<>> /\ ph = 0

ChooseArray ==
  /\ ph = 0 /\ ph' = 1 /\ out' = out
  /\ \E sh \in Shapes : \E dt \in {"f", "i"} :
       LET a == Arr(sh, dt) IN
       \E S \in (IF dt = "f" THEN Patterns(a) ELSE {{}}) : in' = [NoIn EXCEPT !.a = WithNaN(a, S)]

ChooseOp ==
  /\ ph = 1 /\ ph' = 2 /\ out' = out
  /\ LET a == in.a  hasnan == NaN \in Rng(a.cells) IN
     \/ \E d \in 1..NDim(a) :
          LET n == Len(a.labs[d]) IN
          \/ ~hasnan /\ in' = [in EXCEPT !.op = "sort_axis", !.d = d, !.keyvals = a.labs[d]]
          \/ ~hasnan /\ \E p \in Perms(n) : in' = [in EXCEPT !.op = "sort_axis", !.d = d, !.keyvals = p, !.haskey = TRUE]
          \/ ~hasnan /\ \E m \in {"label", "position"} : \E pos \in {<<>>, <<n>>, Rev(Idx(a.labs[d])), <<1, 1>>, <<n, 1, n>>} :
                in' = [in EXCEPT !.op = "take_axis", !.d = d, !.idx = pos, !.mode = m]
          \/ ~hasnan /\ \E mk \in [1..n -> BOOLEAN] : in' = [in EXCEPT !.op = "compress_axis", !.d = d, !.mask = mk]
          \/ a.dtype = "f" /\ \E mv \in {<<>>} \cup {<<k>> : k \in 0..SliceSize(a, d)} :
                /\ (NDim(a) = 1 => mv = <<>>)
                /\ in' = [in EXCEPT !.op = "dropna", !.d = d, !.minvalid = mv]
     \/ \E fk \in {"f", "i"} : in' = [in EXCEPT !.op = "fillna", !.fkind = fk]
     \/ ~hasnan /\ \E b \in ValArrays(a) : \E vs \in {<<5>>, <<7, 9>>, <<3>>} : \E form \in {"scalar", "list", "mask", "masklist"} :
          /\ (form = "scalar" => Len(vs) = 1)
          /\ (form = "masklist" => Len(vs) = 2)          \* a list of a mask (the cells equal to the first value) and the second value
          /\ in' = [in EXCEPT !.op = "setna", !.a = b, !.vals = vs, !.form = form]

Apply ==
  /\ ph = 2 /\ ph' = 3 /\ in' = in
  /\ LET a == in.a IN
     out' = CASE in.op = "sort_axis" -> SortAxis(a, in.d, in.keyvals)
              [] in.op = "take_axis" -> TakeAxisPos(a, in.d, in.idx)
              [] in.op = "compress_axis" -> TakeAxisPos(a, in.d, MaskPos(in.mask))
              [] in.op = "dropna" -> DropNa(a, in.d, IF in.minvalid = <<>> THEN SliceSize(a, in.d) ELSE in.minvalid[1])
              [] in.op = "fillna" -> FillNa(a, FillId2, in.fkind)
              [] in.op = "setna" -> SetNa(a, [k \in 1..Len(a.cells) |-> \E j \in 1..Len(in.vals) : in.vals[j] = a.cells[k]])
  /\ (Emit => PrintT(ToJson([op |-> in.op, in |-> in, out |-> out'])))
Next == ChooseArray \/ ChooseOp \/ Apply
Spec == Init /\ [][Next]_vars

(* ---------- theorems ---------- *)
\* slices move with their labels: every result slice along d is the input slice carrying the same label
SlicesWithLabels ==
  (ph = 3 /\ in.op \in {"sort_axis", "take_axis", "compress_axis", "dropna"}) =>
     LET a == in.a  r == out  d == in.d IN
     /\ \A i \in 1..NDim(a) : i # d => r.labs[i] = a.labs[i]
     /\ \A c \in Rng(Coords(Shape(r))) : At(r, c) = At(a, [c EXCEPT ![d] = FirstPos(a.labs[d], r.labs[d][c[d]])[1]])
SortedResult ==
  (ph = 3 /\ in.op = "sort_axis") =>
     /\ (~in.haskey => IsInc(out.labs[in.d]))
     /\ Rng(out.labs[in.d]) = Rng(in.a.labs[in.d]) /\ Len(out.labs[in.d]) = Len(in.a.labs[in.d])
     /\ SortAxis(out, in.d, IF in.haskey THEN Sorted(in.keyvals) ELSE out.labs[in.d]) = out          \* idempotent
DropKeepsOrder ==
  (ph = 3 /\ in.op = "dropna") =>
     LET L == in.a.labs[in.d]  R == out.labs[in.d] IN
     /\ \A i, j \in 1..Len(R) : i < j => FirstPos(L, R[i])[1] < FirstPos(L, R[j])[1]
     /\ in.minvalid = <<>> => NaN \notin Rng(out.cells)
FillExactly ==
  (ph = 3 /\ in.op = "fillna") => \A k \in 1..Len(out.cells) : out.cells[k] = IF in.a.cells[k] = NaN THEN FillId2 ELSE in.a.cells[k]
=============================================================================
