---------------------------- MODULE DatasetHeap ------------------------------
(***************************************************************************)
(* C13: a Dataset's variables always share the Dataset's axes.             *)
(*                                                                         *)
(* A Dataset is a small heap: Axis objects have identity (ids), the        *)
(* Dataset holds an ordered list of axis ids, every variable holds the ids *)
(* of its own axes.  One action per public mutation.  `hist` records the   *)
(* path (action, arguments, expected projected state after it); it is      *)
(* hidden by the VIEW of the generator configuration, so that TLC emits    *)
(* every edge of the abstract state graph once, with a shortest path.      *)
(***************************************************************************)
EXTENDS Arrays, Json

CONSTANTS SmallPool, \* TRUE: a reduced pool of candidate arrays (deeper exhaustive exploration)
          MaxId,     \* number of Axis object slots
          MaxDepth,  \* bound on the length of a behaviour
          Emit

VARIABLES objs,     \* [1..MaxId -> [used, name, labs]]
          dsaxes,   \* Seq(id): the Dataset's axes, in order
          vars,     \* Seq([key, axes: Seq(id), cells, val]) in key insertion order
          direct,   \* ids of axes appended to the dataset directly that no variable has used yet
          hist      \* path: Seq([act, args, ok, post])
state == <<objs, dsaxes, vars, direct>>
allvars == <<objs, dsaxes, vars, direct, hist>>

Keys == {"a", "x"}        \* one of the keys is also the name of a dimension: ds["x"] is then the variable, not the labels of x
Base == {"x", "y", "z"}
Alt(n) == CASE n = "x" -> "X" [] n = "y" -> "Y" [] n = "z" -> "Z" [] n = "X" -> "x" [] n = "Y" -> "y" [] n = "Z" -> "z" [] OTHER -> n
L1 == <<2, 4>>
L2 == <<4, 6>>
LabVariants == {L1, L2}
OtherLabs(L) == IF L = L1 THEN L2 ELSE L1

Free == [used |-> FALSE, name |-> "", labs |-> <<>>]
Obj(n, l) == [used |-> TRUE, name |-> n, labs |-> l]

NameOf(id) == objs[id].name
DsNames == [i \in 1..Len(dsaxes) |-> NameOf(dsaxes[i])]
HasName(n) == \E i \in 1..Len(dsaxes) : NameOf(dsaxes[i]) = n
IdOf(n) == dsaxes[CHOOSE i \in 1..Len(dsaxes) : NameOf(dsaxes[i]) = n]
HasKey(k) == \E i \in 1..Len(vars) : vars[i].key = k
VarOf(k) == vars[CHOOSE i \in 1..Len(vars) : vars[i].key = k]
UsedBy(id, vs) == \E i \in 1..Len(vs) : \E j \in 1..Len(vs[i].axes) : vs[i].axes[j] = id

(* ---------- candidate arrays: 0-2 dims over Base, each with a label variant ---------- *)
DimOrders == ({<<>>} \cup {<<d>> : d \in Base} \cup {<<d, e>> : d, e \in Base}) \ {<<d, d>> : d \in Base}
Cand(dims, labs, val) == [dims |-> dims, labs |-> labs, val |-> val,
                          cells |-> [k \in 1..Prod([i \in 1..Len(labs) |-> Len(labs[i])]) |-> 100 * val + k]]
SmallCandidates == {Cand(<<"x", "y">>, <<L1, L1>>, 3), Cand(<<"y", "x">>, <<L1, L1>>, 4), Cand(<<"y", "x">>, <<L2, L1>>, 5),
                    Cand(<<"x">>, <<L1>>, 2), Cand(<<"y", "z">>, <<L1, L1>>, 6), Cand(<<>>, <<>>, 1)}
AllCandidates == UNION {{Cand(dims, labs, 1 + Len(dims)) : labs \in [1..Len(dims) -> LabVariants]} : dims \in DimOrders}

Candidates == IF SmallPool THEN SmallCandidates ELSE AllCandidates

(* ---------- projection: what the harness observes on the real Dataset ---------- *)
ProjVar(v) == [key |-> v.key, dims |-> [j \in 1..Len(v.axes) |-> NameOf(v.axes[j])],
               labs |-> [j \in 1..Len(v.axes) |-> objs[v.axes[j]].labs], cells |-> v.cells,
               shared |-> [j \in 1..Len(v.axes) |-> HasName(NameOf(v.axes[j])) /\ IdOf(NameOf(v.axes[j])) = v.axes[j]]]
Proj == [dims |-> DsNames, labs |-> [i \in 1..Len(dsaxes) |-> objs[dsaxes[i]].labs], vars |-> [i \in 1..Len(vars) |-> ProjVar(vars[i])]]

(* ---------- helpers ---------- *)
\* smallest unused slots, as many as needed, given the slots taken so far
RECURSIVE Alloc(_, _)
Alloc(taken, n) == IF n = 0 THEN <<>>
                   ELSE LET id == CHOOSE i \in 1..MaxId : i \notin taken /\ \A j \in 1..(i - 1) : j \in taken
                        IN <<id>> \o Alloc(taken \cup {id}, n - 1)
TakenIds == {i \in 1..MaxId : objs[i].used}
\* remove from ax (a sequence of ids) those in cands that no variable in vs uses
Collect(ax, cands, vs) == SelectSeq(ax, LAMBDA id : ~(id \in cands /\ ~UsedBy(id, vs)))
Release(o, ax) == [i \in 1..MaxId |-> IF o[i].used /\ (\A j \in 1..Len(ax) : ax[j] # i) THEN Free ELSE o[i]]

Record(act, args, ok) == hist' = Append(hist, [act |-> act, args |-> args, ok |-> ok, post |-> Proj'])
Bound == Len(hist) < MaxDepth

Init == /\ objs = [i \in 1..MaxId |-> Free] /\ dsaxes = <<>> /\ vars = <<>> /\ direct = {} /\ hist = <<>>

(* ---------- ds[k] = array ---------- *)
Conflict(c) == \E i \in 1..Len(c.dims) : HasName(c.dims[i]) /\ objs[IdOf(c.dims[i])].labs # c.labs[i]
SetVar(k, c) ==
  /\ Bound
  /\ IF Conflict(c)
     THEN /\ UNCHANGED state                                      \* ValueError, Dataset as it was
          /\ Record("setvar", [k |-> k, c |-> c], FALSE)
     ELSE LET newpos == SelectSeq(Idx(c.dims), LAMBDA i : ~HasName(c.dims[i]))
              ids == Alloc(TakenIds, Len(newpos))
              idfor(i) == IF HasName(c.dims[i]) THEN IdOf(c.dims[i])
                          ELSE ids[CHOOSE q \in 1..Len(newpos) : newpos[q] = i]
              newvar == [key |-> k, axes |-> [i \in 1..Len(c.dims) |-> idfor(i)], cells |-> c.cells, val |-> c.val]
              oldaxes == IF HasKey(k) THEN Rng(VarOf(k).axes) ELSE {}
              vs == IF HasKey(k) THEN [i \in 1..Len(vars) |-> IF vars[i].key = k THEN newvar ELSE vars[i]]
                    ELSE Append(vars, newvar)
              objs1 == [i \in 1..MaxId |-> IF \E q \in 1..Len(ids) : ids[q] = i
                                           THEN Obj(c.dims[newpos[CHOOSE q \in 1..Len(ids) : ids[q] = i]], c.labs[newpos[CHOOSE q \in 1..Len(ids) : ids[q] = i]])
                                           ELSE objs[i]]
              ax1 == dsaxes \o ids
              ax2 == Collect(ax1, oldaxes \ Rng(newvar.axes), vs)
          IN /\ Len(newpos) <= MaxId - Cardinality(TakenIds)
             /\ vars' = vs /\ dsaxes' = ax2 /\ objs' = Release(objs1, ax2)
             /\ direct' = (direct \ Rng(newvar.axes)) \cap Rng(ax2)
             /\ Record("setvar", [k |-> k, c |-> c], TRUE)

(* ---------- del ds[k] ---------- *)
DelVar(k) ==
  /\ Bound /\ HasKey(k)
  /\ LET vs == SelectSeq(vars, LAMBDA v : v.key # k)
         ax2 == Collect(dsaxes, Rng(VarOf(k).axes), vs)
     IN vars' = vs /\ dsaxes' = ax2 /\ objs' = Release(objs, ax2) /\ direct' = direct \cap Rng(ax2)
  /\ Record("delvar", [k |-> k], TRUE)

(* ---------- renaming: through the dataset, through a variable, all at once, in bulk ---------- *)
Rename(id, n) == objs' = [objs EXCEPT ![id].name = n]
RenameViaDs(d, n) ==       \* ds.axes[d].name = n
  /\ Bound /\ HasName(d) /\ ~HasName(n)
  /\ Rename(IdOf(d), n) /\ UNCHANGED <<dsaxes, vars, direct>>
  /\ Record("rename_ds", [d |-> d, n |-> n], TRUE)
RenameViaVar(k, j, n) ==   \* ds[k].axes[j].name = n
  /\ Bound /\ HasKey(k) /\ j <= Len(VarOf(k).axes) /\ ~HasName(n)
  /\ Rename(VarOf(k).axes[j], n) /\ UNCHANGED <<dsaxes, vars, direct>>
  /\ Record("rename_var", [k |-> k, j |-> j, n |-> n], TRUE)
SetDims(names) ==          \* ds.dims = names   (pairwise distinct; they may permute the current names: a swap or a shift)
  /\ Bound /\ Len(dsaxes) > 0 /\ Len(names) = Len(dsaxes) /\ NoDup(names)
  /\ objs' = [i \in 1..MaxId |-> IF \E q \in 1..Len(dsaxes) : dsaxes[q] = i
                                 THEN [objs[i] EXCEPT !.name = names[CHOOSE q \in 1..Len(dsaxes) : dsaxes[q] = i]] ELSE objs[i]]
  /\ UNCHANGED <<dsaxes, vars, direct>>
  /\ Record("set_dims", [names |-> names], TRUE)
RenameAxes(d, n) ==        \* ds.rename_axes({d: n})
  /\ Bound /\ HasName(d) /\ ~HasName(n)
  /\ Rename(IdOf(d), n) /\ UNCHANGED <<dsaxes, vars, direct>>
  /\ Record("rename_axes", [d |-> d, n |-> n], TRUE)
RenameKeys(k, nk) ==       \* ds.rename_keys({k: nk}): the renamed variable moves to the end
  /\ Bound /\ HasKey(k) /\ nk # k /\ ~HasKey(nk)
  /\ vars' = Append(SelectSeq(vars, LAMBDA v : v.key # k), [VarOf(k) EXCEPT !.key = nk])
  /\ UNCHANGED <<objs, dsaxes, direct>>
  /\ Record("rename_keys", [k |-> k, n |-> nk], TRUE)

\* ... onto a key that exists: that variable is replaced (and takes with it the axes only it used)
RenameKeysOnto(k, nk) ==
  /\ Bound /\ HasKey(k) /\ HasKey(nk) /\ nk # k
  /\ LET vs == Append(SelectSeq(vars, LAMBDA v : v.key # k /\ v.key # nk), [VarOf(k) EXCEPT !.key = nk])
         ax2 == Collect(dsaxes, Rng(VarOf(nk).axes), vs)
     IN vars' = vs /\ dsaxes' = ax2 /\ objs' = Release(objs, ax2) /\ direct' = direct \cap Rng(ax2)
  /\ Record("rename_keys", [k |-> k, n |-> nk], TRUE)

(* ---------- relabelling ---------- *)
SetAxisValues(d, labs) ==  \* ds.set_axis(labs, axis=d)
  /\ Bound /\ HasName(d) /\ Len(labs) = Len(objs[IdOf(d)].labs)
  /\ objs' = [objs EXCEPT ![IdOf(d)].labs = labs] /\ UNCHANGED <<dsaxes, vars, direct>>
  /\ Record("set_axis", [d |-> d, labs |-> labs], TRUE)
RelabelOne(d, i, v) ==     \* ds.axes[d][i] = v
  /\ Bound /\ HasName(d) /\ i <= Len(objs[IdOf(d)].labs)
  /\ objs' = [objs EXCEPT ![IdOf(d)].labs[i] = v] /\ UNCHANGED <<dsaxes, vars, direct>>
  /\ Record("relabel_one", [d |-> d, i |-> i, v |-> v], TRUE)
\* the same two changes made through one of the variables: ds[k].set_axis(labs, axis=j) and ds[k].axes[j][i] = v change the
\* shared object, hence the dataset and every other variable that has the dimension
SetAxisViaVar(k, j, labs) ==
  /\ Bound /\ HasKey(k) /\ j <= Len(VarOf(k).axes) /\ Len(labs) = Len(objs[VarOf(k).axes[j]].labs)
  /\ objs' = [objs EXCEPT ![VarOf(k).axes[j]].labs = labs] /\ UNCHANGED <<dsaxes, vars, direct>>
  /\ Record("set_axis_var", [k |-> k, j |-> j, labs |-> labs], TRUE)
RelabelOneViaVar(k, j, i, v) ==
  /\ Bound /\ HasKey(k) /\ j <= Len(VarOf(k).axes) /\ i <= Len(objs[VarOf(k).axes[j]].labs)
  /\ objs' = [objs EXCEPT ![VarOf(k).axes[j]].labs[i] = v] /\ UNCHANGED <<dsaxes, vars, direct>>
  /\ Record("relabel_one_var", [k |-> k, j |-> j, i |-> i, v |-> v], TRUE)
RenameViaVarSetAxis(k, j, n) ==   \* ds[k].set_axis(name=n, axis=j)
  /\ Bound /\ HasKey(k) /\ j <= Len(VarOf(k).axes) /\ ~HasName(n)
  /\ Rename(VarOf(k).axes[j], n) /\ UNCHANGED <<dsaxes, vars, direct>>
  /\ Record("rename_var_set_axis", [k |-> k, j |-> j, n |-> n], TRUE)
ReplaceAxisObject(d, labs) ==   \* ds.axes[d] = Axis(labs, d): a new object, installed in every variable that has d
  /\ Bound /\ HasName(d) /\ Cardinality(TakenIds) < MaxId /\ Len(labs) = Len(objs[IdOf(d)].labs)
  /\ LET old == IdOf(d)
         new == Alloc(TakenIds, 1)[1]
         sub(s) == [q \in 1..Len(s) |-> IF s[q] = old THEN new ELSE s[q]]
     IN /\ dsaxes' = sub(dsaxes)
        /\ vars' = [q \in 1..Len(vars) |-> [vars[q] EXCEPT !.axes = sub(@)]]
        /\ objs' = [objs EXCEPT ![new] = Obj(d, labs), ![old] = Free]
        /\ direct' = {IF q = old THEN new ELSE q : q \in direct}
  /\ Record("replace_axis", [d |-> d, labs |-> labs], TRUE)
AppendAxis(d, labs) ==     \* ds.axes.append(Axis(labs, d)) for a name not in use
  /\ Bound /\ ~HasName(d) /\ Cardinality(TakenIds) < MaxId
  /\ LET new == Alloc(TakenIds, 1)[1] IN
     /\ dsaxes' = Append(dsaxes, new) /\ objs' = [objs EXCEPT ![new] = Obj(d, labs)] /\ UNCHANGED vars /\ direct' = direct \cup {new}
  /\ Record("append_axis", [d |-> d, labs |-> labs], TRUE)

\* operations that return a new Dataset (inplace=False, copy(), assigning one of the variables to another Dataset), or a new array
\* (ds[d] for a dimension name d: the labels of d as a variable - an array of its own, whatever is done to it afterwards):
\* this Dataset stays exactly as it was - including the identity of its variables' axes
Pure(kind, args) ==
  /\ Bound /\ Len(vars) > 0 /\ direct = {} /\ UNCHANGED state      \* (a copy does not carry axes that no variable uses)
  /\ Record(kind, args, TRUE)

\* ... and the program goes on with the returned Dataset (ds = ds.copy(), ds = ds.rename_axes(.., inplace=False), ...): it has
\* the same projection as the in-place operation would give, it must obey the same rules under every later mutation, and the
\* Dataset it came from must never change again (the harness keeps every abandoned Dataset and re-projects it after each step).
\* Axis identities are renewed by the copy; the abstract heap is the same up to renaming of ids, so the ids are kept.
\* The copy lists its axes in the order of their first appearance in the variables (the original's order depends on its history;
\* the property promises the set of dimensions, the machine records the order the code produces).
RECURSIVE AxOrder(_, _)
AxOrder(vs, acc) == IF vs = <<>> THEN acc
                    ELSE AxOrder(Tail(vs), acc \o SelectSeq(Head(vs).axes, LAMBDA id : \A q \in 1..Len(acc) : acc[q] # id))
ContinueOn(kind, args) ==
  /\ Bound /\ Len(vars) > 0 /\ direct = {}
  /\ dsaxes' = AxOrder(vars, <<>>) /\ direct' = direct
  /\ CASE kind = "copy" -> UNCHANGED <<objs, vars>>
       [] kind = "rename_axes_copy" -> HasName(args.d) /\ ~HasName(args.n) /\ Rename(IdOf(args.d), args.n) /\ UNCHANGED vars
       [] kind = "set_axis_copy" -> HasName(args.d) /\ Len(args.labs) = Len(objs[IdOf(args.d)].labs)
                                    /\ objs' = [objs EXCEPT ![IdOf(args.d)].labs = args.labs] /\ UNCHANGED vars
       [] kind = "rename_keys_copy" -> HasKey(args.k) /\ ~HasKey(args.n)
                                    /\ vars' = Append(SelectSeq(vars, LAMBDA v : v.key # args.k), [VarOf(args.k) EXCEPT !.key = args.n])
                                    /\ UNCHANGED objs
  /\ Record("continue_" \o kind, args, TRUE)

AllNames == Base \cup {Alt(b) : b \in Base}
Next ==
  \/ \E k \in Keys : \E c \in Candidates : SetVar(k, c)
  \/ \E k \in Keys : DelVar(k) \/ RenameKeys(k, CHOOSE q \in Keys : q # k) \/ RenameKeysOnto(k, CHOOSE q \in Keys : q # k)
  \/ \E k \in Keys : \E j \in 1..2 : HasKey(k) /\ j <= Len(VarOf(k).axes) /\ RenameViaVar(k, j, Alt(NameOf(VarOf(k).axes[j])))
  \/ \E d \in AllNames : RenameViaDs(d, Alt(d)) \/ RenameAxes(d, Alt(d))
  \/ \E d \in AllNames : HasName(d) /\ objs[IdOf(d)].labs \in LabVariants /\
        (SetAxisValues(d, OtherLabs(objs[IdOf(d)].labs)) \/ ReplaceAxisObject(d, OtherLabs(objs[IdOf(d)].labs)))
  \/ \E k \in Keys : \E j \in 1..2 : HasKey(k) /\ j <= Len(VarOf(k).axes) /\ objs[VarOf(k).axes[j]].labs \in LabVariants /\
        (SetAxisViaVar(k, j, OtherLabs(objs[VarOf(k).axes[j]].labs)) \/ RelabelOneViaVar(k, j, 1, objs[VarOf(k).axes[j]].labs[1] + 1)
         \/ RenameViaVarSetAxis(k, j, Alt(NameOf(VarOf(k).axes[j]))))
  \/ \E kind \in {"copy", "rename_axes_copy", "set_axis_copy", "rename_keys_copy"} :
        Len(dsaxes) > 0 /\ Len(vars) > 0 /\ objs[dsaxes[1]].labs \in LabVariants /\
        ContinueOn(kind, [d |-> NameOf(dsaxes[1]), n |-> IF kind = "rename_keys_copy" THEN (CHOOSE q \in Keys : q # vars[1].key) ELSE Alt(NameOf(dsaxes[1])),
                          k |-> vars[1].key, labs |-> OtherLabs(objs[dsaxes[1]].labs)])
  \/ \E d \in Base : AppendAxis(d, L1)
  \/ \E d \in AllNames : \E i \in 1..2 : HasName(d) /\ i <= Len(objs[IdOf(d)].labs) /\ objs[IdOf(d)].labs \in LabVariants
                                          /\ RelabelOne(d, i, objs[IdOf(d)].labs[i] + 1)
  \/ SetDims([q \in 1..Len(dsaxes) |-> Alt(NameOf(dsaxes[q]))])
  \/ Len(dsaxes) >= 2 /\ (SetDims(Rev(DsNames)) \/ SetDims(Tail(DsNames) \o <<Head(DsNames)>>))
  \/ \E kind \in {"copy", "cross_assign", "rename_axes_copy", "set_axis_copy", "rename_keys_copy", "dim_variable"} :
        Len(dsaxes) > 0 /\ (kind = "dim_variable" => ~HasKey(NameOf(dsaxes[1]))) /\ Pure(kind, [d |-> NameOf(dsaxes[1]), n |-> "q", k |-> vars[1].key, labs |-> [j \in 1..Len(objs[dsaxes[1]].labs) |-> 10 + j]])

EmitEdge == Emit => PrintT(ToJson([op |-> "ds_path", path |-> hist']))
NextEmit == Next /\ EmitEdge
Spec == Init /\ [][NextEmit]_allvars
\* simulation: behaviours are emitted once, when they reach MaxDepth (invariant evaluated on the sampled states only)
SpecSim == Init /\ [][Next]_allvars
EmitFinal == (Len(hist) = MaxDepth) => PrintT(ToJson([op |-> "ds_path", path |-> hist]))

(* ---------- invariants (C13) ---------- *)
\* every variable's axis for a dimension is the very same object as the dataset's axis for it
Sharing == \A i \in 1..Len(vars) : \A j \in 1..Len(vars[i].axes) :
              LET id == vars[i].axes[j] IN objs[id].used /\ HasName(NameOf(id)) /\ IdOf(NameOf(id)) = id
UniqueNames == \A i, j \in 1..Len(dsaxes) : i # j => NameOf(dsaxes[i]) # NameOf(dsaxes[j])
UniqueKeys == \A i, j \in 1..Len(vars) : i # j => vars[i].key # vars[j].key
\* no dangling or leaked objects: the used slots are exactly the dataset's axes
NoLeak == TakenIds = Rng(dsaxes) /\ NoDup(dsaxes)
\* the dataset's dimensions are exactly those used by its variables, plus directly appended ones not used yet
DimsExact == \A i \in 1..Len(dsaxes) : UsedBy(dsaxes[i], vars) \/ dsaxes[i] \in direct
\* a variable's data always match its axes
VarsWellFormed == \A i \in 1..Len(vars) : Len(vars[i].cells) = Prod([j \in 1..Len(vars[i].axes) |-> Len(objs[vars[i].axes[j]].labs)])
                                          /\ NoDup(vars[i].axes)
\* a rejected assignment leaves the dataset as it was (action property)
RejectUnchanged == [][(Len(hist') > Len(hist) /\ ~hist'[Len(hist')].ok) => UNCHANGED state]_allvars
View == state
=============================================================================
