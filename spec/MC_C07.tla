------------------------------- MODULE MC_C07 -------------------------------
(* C07: reindexing moves data together with its labels. *)
EXTENDS Arrays, Json
CONSTANTS U, NewU, MaxNew, Emit
VARIABLES in, out, ph
vars == <<in, out, ph>>

InjSeqs(S, n) == {s \in [1..n -> S] : \A i, j \in 1..n : i # j => s[i] # s[j]}
Axes1 == UNION {InjSeqs(U, n) : n \in 1..Cardinality(U)}
NewSeqs == UNION {[1..n -> NewU] : n \in 0..MaxNew}

NoIn == [fam |-> "", a |-> <<>>, d |-> 0, new |-> <<>>, fill |-> NaN, fkind |-> "f", raise |-> FALSE, method |-> "none", t |-> <<>>]
Arr1(L) == Fresh(<<"x">>, <<"i">>, <<L>>, <<1>>, "i", 7, 100)

Init == in = NoIn /\ out = <<>> /\ ph = 0

ChooseArray ==
  /\ ph = 0 /\ ph' = 1 /\ out' = out
  /\ \/ \E L \in Axes1 : \E dt \in {"i", "f"} : in' = [NoIn EXCEPT !.fam = "1d", !.a = [Arr1(L) EXCEPT !.dtype = dt], !.d = 1]
     \* embedded: the reindexed axis at each position of 2-d and 3-d arrays
     \/ \E L \in {<<4, 2, 6>>, <<6, 4>>} : \E d \in 1..3 : \E nd \in 2..3 :
          /\ d <= nd
          /\ LET dims == SubSeq(<<"p", "q", "r">>, 1, nd)
                 labs == [i \in 1..nd |-> IF i = d THEN L ELSE IF i = 1 THEN <<2, 4>> ELSE IF i = 2 THEN <<6, 2, 4>> ELSE <<4, 2>>]
             IN in' = [NoIn EXCEPT !.fam = "nd", !.d = d,
                          !.a = Fresh([dims EXCEPT ![d] = "x"], [i \in 1..nd |-> "i"], labs, [i \in 1..nd |-> i], "i", 7, 100)]
     \/ in' = [NoIn EXCEPT !.fam = "like", !.a = Fresh(<<"x", "y">>, <<"i", "i">>, <<<<4, 2, 6>>, <<2, 4>>>>, <<1, 2>>, "f", 7, 100)]

ChooseNew ==
  /\ ph = 1 /\ ph' = 2 /\ out' = out
  /\ \/ in.fam \in {"1d", "nd"} /\ \E new \in NewSeqs : \E m \in {"none", "left", "right"} : \E fl \in {NaN, FillId} : \E fk \in {"i", "f"} : \E rs \in BOOLEAN :
          /\ (in.fam = "nd" => Len(new) \in 1..2 /\ fk = "f")
          /\ (rs => m = "none" /\ fl = NaN)
          /\ (m # "none" => fl = NaN)
          /\ (fl = NaN => fk = "f")
          /\ in' = [in EXCEPT !.new = new, !.method = m, !.fill = fl, !.fkind = fk, !.raise = rs]
     \* reindex_like: templates share x, y, both (in either order) or neither, with various labels
     \/ in.fam = "like" /\ \E tx \in {<<>>, <<4, 2, 6>>, <<2, 3>>, <<6, 8, 4>>} : \E ty \in {<<>>, <<4, 2>>, <<2, 8>>} : \E swap \in BOOLEAN : \E extra \in BOOLEAN :
          LET dl == (IF tx = <<>> THEN <<>> ELSE <<<<"x", tx>>>>) \o (IF ty = <<>> THEN <<>> ELSE <<<<"y", ty>>>>) \o (IF extra THEN <<<<"w", <<2, 4>>>>>> ELSE <<>>)
              dl2 == IF swap THEN Rev(dl) ELSE dl
          IN in' = [in EXCEPT !.t = Fresh([i \in 1..Len(dl2) |-> dl2[i][1]], [i \in 1..Len(dl2) |-> "i"], [i \in 1..Len(dl2) |-> dl2[i][2]],
                                          [i \in 1..Len(dl2) |-> 0], "f", 0, 500)]

Apply ==
  /\ ph = 2 /\ ph' = 3 /\ in' = in
  /\ out' = IF in.fam = "like" THEN Ok(ReindexLike(in.a, in.t))
            ELSE Reindex(in.a, in.d, in.new, "i", in.fill, in.fkind, in.raise, in.method)
  /\ (Emit => PrintT(ToJson([op |-> "reindex", in |-> in, out |-> out'])))

Next == ChooseArray \/ ChooseNew \/ Apply
Spec == Init /\ [][Next]_vars

(* ---------- theorems ---------- *)
\* the result's axis is exactly the requested labels; slices at existing labels are the original slices
MovesWithLabels ==
  (ph = 3 /\ out.ok /\ in.fam # "like" /\ in.method = "none") =>
    LET r == out.val  d == in.d  a == in.a IN
    /\ r.labs[d] = in.new
    /\ \A i \in 1..NDim(a) : i # d => r.labs[i] = a.labs[i]
    /\ \A c \in Rng(Coords(Shape(r))) :
         LET p == FirstPos(a.labs[d], in.new[c[d]]) IN
         At(r, c) = IF p = <<>> THEN in.fill ELSE At(a, [c EXCEPT ![d] = p[1]])
\* identity on the array's own labels
OwnLabelsIdentity ==
  (ph = 1 /\ in.fam # "like") => Reindex(in.a, in.d, in.a.labs[in.d], "i", NaN, "f", TRUE, "none") = Ok(in.a)
\* raise_error raises iff a label is missing
RaiseIff == (ph = 3 /\ in.fam # "like" /\ in.raise) => (out.ok <=> Rng(in.new) \subseteq Rng(in.a.labs[in.d]))
\* with a method every slice of the result is some slice of the source (no fill)
MethodNoFill == (ph = 3 /\ out.ok /\ in.fam # "like" /\ in.method # "none") => Rng(out.val.cells) \subseteq Rng(in.a.cells)
=============================================================================
