------------------------------- MODULE MC_C15 -------------------------------
(***************************************************************************)
(* C15: operations do not modify their operands; copies are independent.   *)
(* The Workspace machine (spec/Workspace.tla) carries the action           *)
(* properties OperandsUnchanged and CopyIndependent.  This module          *)
(* enumerates the operand-watch sweep: every non in-place operation class  *)
(* x operand configuration (axes unsorted; metadata with mutable values;   *)
(* live siblings sharing Axis objects: transpose and squeeze results).     *)
(***************************************************************************)
EXTENDS Integers, Sequences, TLC, Json
CONSTANTS Emit
VARIABLES in, ph
vars == <<in, ph>>
ArrayOps == {"take_scalar", "take_list", "take_slice", "take_mask", "take_position", "take_axis", "compress_axis",
             "sum", "mean", "median", "min", "std", "cumsum", "diff", "diff_keepaxis",
             "transpose", "T", "swapaxes", "rollaxis", "newaxis", "squeeze", "repeat", "broadcast", "flatten", "unflatten", "reshape",
             "reindex_axis", "reindex_like", "sort_axis", "interp_axis", "dropna", "fillna", "setna", "put_copy", "copy",
             "add", "sub", "mul", "truediv", "floordiv", "pow", "radd", "rsub", "scalar_mul", "ndarray_add",
             "neg", "pos", "invert", "eq", "ne", "lt", "le", "gt", "ge", "and", "or", "stack", "concatenate"}
MoreOps == {"setna_mask_list", "median_tuple", "median_list_skipna", "sum_tuple", "argmax_tuple", "flatten_then_median", "fillna_int", "setna_int_value", "put_copy_cast_int", "put_copy_cast_float", "align_sort", "align_inner_sort", "stack_align_sort",
            "concatenate_align", "broadcast_arrays", "to_json", "to_dataset", "percentile", "argmax", "interp_like",
            "dataset_construct", "dataset_construct_misaligned", "ds_take", "ds_mean", "ds_take_axis", "ds_sort_axis", "ds_reindex_axis",
            "ds_interp_axis", "ds_add", "ds_set_axis_copy", "ds_rename_axes_copy", "ds_rename_keys_copy", "ds_copy_then_mutate", "ds_stack", "ds_concatenate",
            "concatenate_axis_metadata", "ds_reduce_axis", "to_json_nonjson_metadata", "ds_copy_then_relabel_rename", "reshape_indexed_group", "reshape_regroup", "flatten_indexed_group", "unflatten_partial",
            "set_axis_copy_all_keywords", "axis_set_copy", "percentile_all_axes",
            "copy_then_set_values", "copy_then_relabel", "copy_then_rename", "copy_then_mutate_attrs", "copy_then_mutate_nested_attrs", "mutate_original_after_copy"}
Configs == {"plain", "siblings"}
Init == in = <<>> /\ ph = 0
Choose == ph = 0 /\ ph' = 1 /\ \E o \in ArrayOps \cup MoreOps : \E c \in Configs : in' = [opclass |-> o, config |-> c]
            /\ (Emit => PrintT(ToJson([op |-> "operand_watch", in |-> in'])))
Spec == Init /\ [][Choose]_vars
Sane == ArrayOps \cap MoreOps = {}
=============================================================================
