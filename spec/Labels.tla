------------------------------- MODULE Labels -------------------------------
(***************************************************************************)
(* Label-level reference semantics of dimarray.                            *)
(*                                                                         *)
(* An abstract label is an integer h.  The concretisation (harness/absarr) *)
(* maps h to an int, a float or a string in an order-preserving (and, for  *)
(* numbers, distance-preserving up to a common scale) way, so equality,    *)
(* order and distance of labels are those of h.  Options are sequences:    *)
(* <<>> = None, <<x>> = Some x (TLC's JSON reader has no null).            *)
(***************************************************************************)
EXTENDS Integers, Sequences, FiniteSets, TLC, SequencesExt

IsNone(o) == o = <<>>
Val(o)    == o[1]
Some(x)   == <<x>>
None      == <<>>

Rng(s) == {s[i] : i \in DOMAIN s}
Idx(s) == [i \in 1..Len(s) |-> i]
Rev(s) == [i \in 1..Len(s) |-> s[Len(s) + 1 - i]]
Abs(x) == IF x < 0 THEN -x ELSE x
Min2(a, b) == IF a < b THEN a ELSE b
Max2(a, b) == IF a > b THEN a ELSE b
NoDup(s) == \A i, j \in 1..Len(s) : i # j => s[i] # s[j]
Gather(s, pos) == [j \in 1..Len(pos) |-> s[pos[j]]]           \* s sampled at positions pos
Count(s, P(_)) == Cardinality({i \in 1..Len(s) : P(s[i])})

(* ---------- order predicates on label sequences ---------- *)
IsInc(L) == \A i \in 1..Len(L)-1 : L[i] < L[i+1]
IsDec(L) == \A i \in 1..Len(L)-1 : L[i] > L[i+1]
Mono(L)  == IsInc(L) \/ IsDec(L)
\* monotonic with ties allowed (repeated neighbouring labels): what the bounding-box rule of label slices needs
MonoEq(L) == (\A i \in 1..Len(L)-1 : L[i] <= L[i+1]) \/ (\A i \in 1..Len(L)-1 : L[i] >= L[i+1])
\* direction of a monotonic axis; axes of fewer than two labels count as increasing
Dir(L)   == IF Len(L) < 2 \/ L[Len(L)] >= L[1] THEN 1 ELSE -1

\* stable ascending argsort: p[j] = position in L of the j-th smallest label
SortedPerm(L) ==
  LET n == Len(L)
      rank(i) == Cardinality({k \in 1..n : L[k] < L[i] \/ (L[k] = L[i] /\ k < i)}) + 1
  IN [j \in 1..n |-> CHOOSE i \in 1..n : rank(i) = j]
Sorted(L) == Gather(L, SortedPerm(L))

\* numpy.searchsorted on an ascending sequence S: 0-based insertion index
SearchSorted(S, v, side) ==
  IF side = "left" THEN Cardinality({i \in 1..Len(S) : S[i] < v})
                   ELSE Cardinality({i \in 1..Len(S) : S[i] <= v})

\* first position of v in L as an option
FirstPos(L, v) ==
  IF \E i \in 1..Len(L) : L[i] = v
  THEN <<CHOOSE i \in 1..Len(L) : L[i] = v /\ \A j \in 1..i-1 : L[j] # v>>
  ELSE <<>>

\* every k-th element of a sequence, starting with the first
Every(s, k) == [j \in 1..((Len(s) + k - 1) \div k) |-> s[(j-1)*k + 1]]

(* ---------- C01: single label, optional tolerance ---------- *)
\* nearest position (first on ties), as numpy.argmin(|L - v|)
Nearest(L, v) ==
  CHOOSE i \in 1..Len(L) :
    /\ \A j \in 1..Len(L) : Abs(L[i] - v) <= Abs(L[j] - v)
    /\ \A j \in 1..i-1 : Abs(L[j] - v) > Abs(L[i] - v)
\* option: position of label v in L (tol = <<>>: exact, first occurrence;
\* tol = <<t>>: nearest label iff within t).  <<>> = "IndexError".
LocateOne(L, v, tol) ==
  IF IsNone(tol) THEN FirstPos(L, v)
  ELSE IF Len(L) = 0 THEN <<>>
  ELSE LET i == Nearest(L, v) IN IF Abs(L[i] - v) <= Val(tol) THEN <<i>> ELSE <<>>

(* ---------- C02: label slice -> [ok, pos] ---------- *)
Between(l, lo, hi, d) ==
  /\ (IsNone(lo) \/ (IF d = 1 THEN Val(lo) <= l ELSE Val(lo) >= l))
  /\ (IsNone(hi) \/ (IF d = 1 THEN l <= Val(hi) ELSE l >= Val(hi)))

LocSlice(L, numeric, lo, hi, st) ==
  LET n   == Len(L)
      fwd == IsNone(st) \/ Val(st) > 0
      k   == IF IsNone(st) THEN 1 ELSE Abs(Val(st))
  IN IF n = 0 THEN [ok |-> TRUE, pos |-> <<>>]
     ELSE IF numeric /\ MonoEq(L) THEN
       LET order == IF fwd THEN Idx(L) ELSE Rev(Idx(L))
           d     == IF fwd THEN Dir(L) ELSE -Dir(L)
       IN [ok |-> TRUE, pos |-> Every(SelectSeq(order, LAMBDA i : Between(L[i], lo, hi, d)), k)]
     ELSE
       LET plo == IF IsNone(lo) THEN <<IF fwd THEN 1 ELSE n>> ELSE FirstPos(L, Val(lo))
           phi == IF IsNone(hi) THEN <<IF fwd THEN n ELSE 1>> ELSE FirstPos(L, Val(hi))
       IN IF plo = <<>> \/ phi = <<>> THEN [ok |-> FALSE, pos |-> <<>>]
          ELSE LET a == plo[1]
                   b == phi[1]
                   run == IF fwd THEN [j \in 1..(IF b >= a THEN b - a + 1 ELSE 0) |-> a + j - 1]
                                 ELSE [j \in 1..(IF a >= b THEN a - b + 1 ELSE 0) |-> a - j + 1]
               IN [ok |-> TRUE, pos |-> Every(run, k)]

(* ---------- positional (NumPy) indexing of one dimension of length n ---------- *)
\* Python integer index -> option of 1-based position
PosOne(n, i) == IF i >= 0 /\ i < n THEN <<i + 1>> ELSE IF i < 0 /\ i >= -n THEN <<n + i + 1>> ELSE <<>>
\* Python slice(lo, hi, st).indices(n) expanded: sequence of 1-based positions
PosSlice(n, lo, hi, st) ==
  LET s == IF IsNone(st) THEN 1 ELSE Val(st)
      clip(x, a, b) == IF x < a THEN a ELSE IF x > b THEN b ELSE x
      norm(o, dflt, a, b) == IF IsNone(o) THEN dflt ELSE clip(IF Val(o) < 0 THEN Val(o) + n ELSE Val(o), a, b)
      start == IF s > 0 THEN norm(lo, 0, 0, n) ELSE norm(lo, n - 1, -1, n - 1)
      stop  == IF s > 0 THEN norm(hi, n, 0, n) ELSE norm(hi, -1, -1, n - 1)
      cnt   == IF s > 0 THEN (IF stop > start THEN (stop - start + s - 1) \div s ELSE 0)
                        ELSE (IF start > stop THEN (start - stop - s - 1) \div (-s) ELSE 0)
  IN [j \in 1..cnt |-> start + (j - 1) * s + 1]

(* ---------- C06: admissible common axis ---------- *)
UnionSet(Ls) == UNION {Rng(Ls[i]) : i \in 1..Len(Ls)}
InterSet(Ls) == {v \in UnionSet(Ls) : \A i \in 1..Len(Ls) : v \in Rng(Ls[i])}
\* order constraints the property fixes (see DESIGN Appendix C)
OrderOK(Ls, sort, out) ==
  LET ne == SelectSeq(Ls, LAMBDA L : Len(L) > 0)
  IN /\ NoDup(out)
     /\ sort => IsInc(out)
     \* an axis of fewer than two labels is sorted in either direction: it takes the direction of the others
     /\ (~sort /\ (\E i \in 1..Len(Ls) : Len(Ls[i]) >= 2) /\ \A i \in 1..Len(Ls) : IsInc(Ls[i])) => IsInc(out)
     /\ (~sort /\ (\E i \in 1..Len(Ls) : Len(Ls[i]) >= 2) /\ \A i \in 1..Len(Ls) : IsDec(Ls[i])) => IsDec(out)
     /\ (Len(ne) > 0 /\ ~sort /\ \A i \in 1..Len(ne) : ne[i] = ne[1]) => out = ne[1]
UnionOK(Ls, sort, out) == Rng(out) = UnionSet(Ls) /\ OrderOK(Ls, sort, out)
InterOK(Ls, sort, out) == Rng(out) = InterSet(Ls) /\ NoDup(out) /\ (sort => IsInc(out))
                          /\ ((~sort /\ \A i \in 1..Len(Ls) : Len(Ls[i]) >= 2 /\ IsInc(Ls[i])) => IsInc(out))
                          /\ ((~sort /\ \A i \in 1..Len(Ls) : Len(Ls[i]) >= 2 /\ IsDec(Ls[i])) => IsDec(out))
                          /\ ((~sort /\ \A i \in 1..Len(Ls) : Ls[i] = Ls[1]) => out = Ls[1])

(* ---------- C07: source position for each requested label: 0 = fill ---------- *)
ReindexPos(L, new, method) ==
  IF method = "none"
  THEN [j \in 1..Len(new) |-> IF FirstPos(L, new[j]) = <<>> THEN 0 ELSE FirstPos(L, new[j])[1]]
  ELSE LET p == SortedPerm(L)
           S == Gather(L, p)
           clip(x) == IF x > Len(L) - 1 THEN Len(L) - 1 ELSE x
       IN [j \in 1..Len(new) |-> p[clip(SearchSorted(S, new[j], method)) + 1]]

(* ---------- C11: row-major product of member label sequences ---------- *)
RECURSIVE Product(_)
Product(Ms) == IF Ms = <<>> THEN << <<>> >>
               ELSE LET rest == Product(Tail(Ms)) IN
                    FlattenSeq([i \in 1..Len(Head(Ms)) |-> [j \in 1..Len(rest) |-> <<Head(Ms)[i]>> \o rest[j]]])

(* ---------- C09: labels after one difference ---------- *)
DiffLabels(L, scheme) == IF Len(L) = 0 THEN <<>> ELSE
   CASE scheme = "backward" -> Tail(L)
     [] scheme = "forward"  -> SubSeq(L, 1, Len(L) - 1)
     [] scheme = "centered" -> [j \in 1..Len(L)-1 |-> (L[j] + L[j+1]) \div 2]
=============================================================================
