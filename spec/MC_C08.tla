------------------------------- MODULE MC_C08 -------------------------------
(* C08: reductions equal NumPy's along the named axis and drop only that axis. *)
EXTENDS Arrays, Json
CONSTANTS Shapes, Emit
VARIABLES in, out, ph
vars == <<in, out, ph>>

ShapesQuick == {<<1>>, <<2>>, <<3>>, <<1, 2>>, <<2, 1>>, <<2, 3>>, <<3, 2>>, <<1, 1>>, <<2, 2>>, <<2, 3, 2>>, <<1, 3, 2>>, <<2, 1, 3>>, <<2, 1, 2>>}
ShapesTiny == {<<2>>, <<1, 2>>, <<2, 3>>, <<2, 1, 3>>}
ShapesThorough == UNION {[1..n -> 1..3] : n \in 1..3} \cup {<<2, 3, 1, 2>>, <<1, 2, 2, 3>>, <<4, 2>>, <<2, 4>>, <<4>>}
DimNames == <<"x", "y", "z", "w">>
Pool == << <<4, 2, 6, 8>>, <<2, 6, 4, 8>>, <<6, 2, 4, 8>>, <<8, 4, 2, 6>> >>
Arr(shape, dt) == Fresh(SubSeq(DimNames, 1, Len(shape)), [i \in 1..Len(shape) |-> "i"],
                        [i \in 1..Len(shape) |-> SubSeq(Pool[i], 1, shape[i])], [i \in 1..Len(shape) |-> i], dt, 7, 100)
Perms(S) == {p \in UNION {[1..n -> S] : n \in 2..Cardinality(S)} : \A i, j \in 1..Len(p) : i # j => p[i] # p[j]}

\* NaN patterns: every subset of cells for small arrays, a fixed family for larger ones
Patterns(a) ==
  LET n == Len(a.cells)
      cs == Coords(Shape(a))
  IN IF n <= 4 THEN SUBSET (1..n)
     ELSE {{}, {1}, {n}, 1..n, {k \in 1..n : k % 3 = 0}}
          \cup {{k \in 1..n : cs[k][d] = 1} : d \in 1..NDim(a)}               \* a whole slice
          \cup {{k \in 1..n : cs[k][d] # 1} : d \in 1..NDim(a)}
WithNaN(a, S) == [a EXCEPT !.cells = [k \in 1..Len(a.cells) |-> IF k \in S THEN NaN ELSE a.cells[k]]]

NoSpec == [k |-> "", dims |-> <<>>]
Init == in = [a |-> <<>>, spec |-> NoSpec, skipna |-> FALSE] /\ out = <<>> /\ ph = 0

ChooseArray ==
  /\ ph = 0 /\ ph' = 1 /\ out' = out
  /\ \E sh \in Shapes : \E dt \in {"f", "i", "b"} :
       LET a == Arr(sh, dt) IN
       \E S \in (IF dt = "f" THEN Patterns(a) ELSE {{}}) : in' = [in EXCEPT !.a = WithNaN(a, S)]

ChooseSpec ==
  /\ ph = 1 /\ ph' = 2 /\ out' = out
  /\ \E sk \in BOOLEAN :
       \/ \E d \in 1..NDim(in.a) : \E k \in {"name", "pos", "neg"} : in' = [in EXCEPT !.spec = [k |-> k, dims |-> <<d>>], !.skipna = sk]
       \/ \E p \in Perms(1..NDim(in.a)) : in' = [in EXCEPT !.spec = [k |-> "tuple", dims |-> p], !.skipna = sk]
       \* tuples of some of the dimensions, in any order - one-element tuples included
       \/ \E m \in 1..(NDim(in.a) - 1) : \E p \in {q \in [1..m -> 1..NDim(in.a)] : \A i, j \in 1..m : i # j => q[i] # q[j]} :
             in' = [in EXCEPT !.spec = [k |-> "tuple", dims |-> p], !.skipna = sk]
       \/ in' = [in EXCEPT !.spec = [k |-> "none", dims |-> [i \in 1..NDim(in.a) |-> i]], !.skipna = sk]

Apply ==
  /\ ph = 2 /\ ph' = 3 /\ in' = in
  /\ out' = Reduce(in.a, in.spec.dims, in.skipna)
  /\ (Emit => PrintT(ToJson([op |-> "reduce", in |-> in, out |-> out'])))
Next == ChooseArray \/ ChooseSpec \/ Apply
Spec == Init /\ [][Next]_vars

(* ---------- theorems ---------- *)
\* only the reduced dimensions disappear; the others keep order and labels; metadata carried
DropsOnlyAxis ==
  ph = 3 => /\ out.dims = SelectSeq(in.a.dims, LAMBDA d : \A k \in 1..Len(in.spec.dims) : in.a.dims[in.spec.dims[k]] # d)
            /\ \A i \in 1..NDim(out) : out.labs[i] = in.a.labs[DimPos(in.a, out.dims[i])]
            /\ out.attrs = in.a.attrs
\* the fibres partition the cells of the input: every input cell feeds exactly one output cell (once)
Partition ==
  (ph = 3 /\ ~in.skipna) =>
     /\ \A k \in 1..Len(in.a.cells) : in.a.cells[k] # NaN =>
           Cardinality({q \in 1..Len(out.cells) : \E j \in 1..Len(out.cells[q].fib) : out.cells[q].fib[j] = in.a.cells[k]}) = 1
     /\ \A q \in 1..Len(out.cells) : Len(out.cells[q].fib) = Prod([k \in 1..Len(in.spec.dims) |-> Len(in.a.labs[in.spec.dims[k]])])
=============================================================================
