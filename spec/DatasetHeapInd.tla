--------------------------- MODULE DatasetHeapInd ----------------------------
(***************************************************************************)
(* C13, inductive step.  The bounded runs of DatasetHeap explore every     *)
(* history up to a depth; here the invariants are shown to be *inductive*: *)
(* IndInit enumerates every heap that satisfies IndInv (within the shape   *)
(* bounds below, whether reachable or not), TLC takes one step of Next     *)
(* from each of them and checks IndInv on every successor.  Together with  *)
(* Init => IndInv (checked by the bounded runs) this gives the invariants  *)
(* for histories of any length - over the same universe of names, keys and *)
(* candidate arrays as the bounded model.                                  *)
(*                                                                         *)
(* Shape bounds: at most MaxId axis objects, at most two variables of at   *)
(* most two dimensions (the candidates have no more), labels drawn from    *)
(* IndLabs = the two label variants and one representative Lo of "any      *)
(* other pair of labels" (the actions distinguish a label sequence only by *)
(* membership in LabVariants and by equality with a candidate's labels;    *)
(* every relabelled sequence behaves like Lo).  Cells and `val` are never  *)
(* read by an action guard; they are fixed to a canonical value.           *)
(* Slot numbers are interchangeable: every action and every invariant is   *)
(* invariant under a permutation of 1..MaxId (Alloc picks "the smallest    *)
(* free slot", any other free slot gives the permuted successor), so only  *)
(* heaps whose Dataset lists the slots 1..n in order are enumerated.       *)
(***************************************************************************)
EXTENDS DatasetHeap

Lo == <<3, 4>>
IndLabs == LabVariants \cup {Lo}
InjSeq(S, n) == {s \in [1..n -> S] : \A i, j \in 1..n : i # j => s[i] # s[j]}
Canon(n) == [k \in 1..n |-> 100 + k]

IndInit ==
  /\ hist = <<>>
  /\ \E n \in 0..MaxId : \E ids \in {[q \in 1..n |-> q]} : \E names \in InjSeq(AllNames, n) : \E labs \in [1..n -> IndLabs] :
       LET pos(i) == CHOOSE q \in 1..n : ids[q] = i
           lab(i) == labs[pos(i)]
       IN /\ dsaxes = ids
          /\ objs = [i \in 1..MaxId |-> IF \E q \in 1..n : ids[q] = i THEN Obj(names[pos(i)], lab(i)) ELSE Free]
          /\ \E nk \in 0..2 : \E ks \in InjSeq(Keys, nk) :
               \E axs \in [1..nk -> UNION {InjSeq({ids[q] : q \in 1..n}, m) : m \in 0..2}] :
                  /\ vars = [i \in 1..nk |-> [key |-> ks[i], axes |-> axs[i],
                                              cells |-> Canon(Prod([j \in 1..Len(axs[i]) |-> Len(lab(axs[i][j]))])), val |-> 1]]
                  /\ direct = {ids[q] : q \in 1..n} \ UNION {Rng(axs[i]) : i \in 1..nk}

\* the unused axes are exactly the directly appended ones (strengthens DimsExact)
DirectExact == direct = {id \in Rng(dsaxes) : ~UsedBy(id, vars)}
FreeSlotsClean == \A i \in 1..MaxId : ~objs[i].used => objs[i] = Free
\* shape of the state space IndInit enumerates (labels outside LabVariants count as Lo)
ShapeOK == /\ Len(vars) <= 2 /\ \A i \in 1..Len(vars) : vars[i].key \in Keys /\ Len(vars[i].axes) <= 2
           /\ \A i \in 1..MaxId : objs[i].used => (objs[i].name \in AllNames /\ Len(objs[i].labs) = 2)
           /\ Len(dsaxes) <= MaxId
IndInv == /\ Sharing /\ UniqueNames /\ UniqueKeys /\ NoLeak /\ DimsExact /\ VarsWellFormed
          /\ DirectExact /\ FreeSlotsClean /\ ShapeOK
IndSpec == IndInit /\ [][Next]_allvars
=============================================================================
