------------------------------- MODULE MC_C10b ------------------------------
(* C10, broadcast_arrays: lists of 2-3 aligned arrays over the dimension pool {x, y, s} *)
EXTENDS Arrays, Json
CONSTANTS Emit
VARIABLES in, out, ph
vars == <<in, out, ph>>

LabOf(d) == CASE d = "x" -> <<4, 2>> [] d = "y" -> <<2, 6, 4>> [] d = "z" -> <<8, 2, 4, 6>>
DimLists == {<<>>, <<"x">>, <<"y">>, <<"x", "y">>, <<"y", "x">>, <<"y", "z">>, <<"z", "x", "y">>}
\* variants: a dimension may be held as a singleton (label <<6>>)
Arr(dims, single, base) ==
  Fresh(dims, [i \in 1..Len(dims) |-> "i"], [i \in 1..Len(dims) |-> IF dims[i] \in single THEN <<6>> ELSE LabOf(dims[i])],
        [i \in 1..Len(dims) |-> 0], "f", base \div 100, base)

Init == in = <<>> /\ out = <<>> /\ ph = 0
Choose ==
  /\ ph = 0 /\ ph' = 1 /\ out' = out
  /\ \E d1, d2 \in DimLists : \E s1 \in SUBSET Rng(d1) : \E s2 \in SUBSET Rng(d2) : \E three \in BOOLEAN :
        /\ Cardinality(s1) <= 1 /\ Cardinality(s2) <= 1
        \* a dimension held as a singleton by every array that has it must be present in all arrays
        \* (the label of a newly introduced dimension that is never repeated is left open by the property)
        /\ \A d \in s1 : (d \in Rng(d2) /\ (~three \/ d = "y"))
        /\ \A d \in s2 : (d \in Rng(d1) /\ (~three \/ d = "y"))
        /\ in' = IF three THEN <<Arr(d1, s1, 100), Arr(d2, s2, 200), Arr(<<"y">>, {}, 300)>>
                          ELSE <<Arr(d1, s1, 100), Arr(d2, s2, 200)>>
Apply ==
  /\ ph = 1 /\ ph' = 2 /\ in' = in
  /\ out' = BroadcastArrays(in)
  /\ (Emit => PrintT(ToJson([op |-> "broadcast_arrays", in |-> [arrs |-> in], out |-> out'])))
Next == Choose \/ Apply
Spec == Init /\ [][Next]_vars

\* all outputs have the same dims and labels; each contains exactly its input's cells
BcSound ==
  ph = 2 => /\ \A i \in 1..Len(out) : out[i].dims = out[1].dims /\ out[i].labs = out[1].labs /\ WellFormed(out[i])
            /\ \A i \in 1..Len(out) : Rng(out[i].cells) = Rng(in[i].cells)
=============================================================================
