------------------------------- MODULE MC_C09 -------------------------------
(* C09: cumulative, difference and arg-extremum operations keep axis bookkeeping right. *)
EXTENDS Arrays, Json
CONSTANTS MaxLen, MaxDim, ArgDim, Emit       \* MaxDim: dimensions of the arrays; ArgDim: dimensions of the arg-extremum scenarios
VARIABLES in, out, ph
vars == <<in, out, ph>>

\* labels are multiples of 8 so that three-fold midpoints stay integral in half-units
OpL == <<24, 8, 40, 16, 32>>          \* unsorted
OpLs(n) == {SubSeq(OpL, 1, n), SortSet(Rng(SubSeq(OpL, 1, n))), Rev(SortSet(Rng(SubSeq(OpL, 1, n))))}
Other1 == <<4, 2>>
Other2 == <<2, 6, 4>>
Other3 == <<6, 2>>
\* the operated dimension "x" at position p of an nd-dimensional array
Arr(L, nd, p, base) ==
  LET others == <<"p", "q", "r">>
      dims == InsertAt(SubSeq(others, 1, nd - 1), p, "x")
      labs == [i \in 1..nd |-> IF dims[i] = "x" THEN L ELSE IF dims[i] = "p" THEN Other1 ELSE IF dims[i] = "q" THEN Other2 ELSE Other3]
  IN Fresh(dims, [i \in 1..nd |-> "i"], labs, [i \in 1..nd |-> i], "f", 7, base)

\* value patterns for argmin / argmax: ties and NaNs
ValPatterns(n) == IF n <= (IF ArgDim = 2 THEN 3 ELSE 4) THEN [1..n -> {NaN, 5, 7}] ELSE {[k \in 1..n |-> 5 + ((k * 7) % 3)], [k \in 1..n |-> IF k = 2 THEN NaN ELSE 9 - (k % 2)], [k \in 1..n |-> 5]}

NoIn == [op |-> "", a |-> <<>>, d |-> 0, n |-> 0, scheme |-> "", keepaxis |-> FALSE, which |-> "", whole |-> FALSE, dflt |-> FALSE]
Init == in = NoIn /\ out = <<>> /\ ph = 0

ChooseArray ==
  /\ ph = 0 /\ ph' = 1 /\ out' = out
  /\ \E len \in 1..MaxLen : \E L \in OpLs(len) : \E nd \in 1..MaxDim : \E p \in 1..nd :
       in' = [NoIn EXCEPT !.a = Arr(L, nd, p, 100), !.d = p]

ChooseOp ==
  /\ ph = 1 /\ ph' = 2 /\ out' = out
  /\ \/ \E op \in {"cumsum", "cumprod"} : \E df \in BOOLEAN :
          /\ (df => in.d = NDim(in.a))
          /\ in' = [in EXCEPT !.op = op, !.dflt = df]
     \/ \E n \in 1..3 : \E sch \in {"backward", "forward", "centered"} : \E ka \in BOOLEAN : \E df \in BOOLEAN :
          /\ ~(ka /\ sch = "centered")
          /\ (df => in.d = NDim(in.a) /\ n = 1 /\ sch = "backward" /\ ~ka)
          /\ in' = [in EXCEPT !.op = "diff", !.n = n, !.scheme = sch, !.keepaxis = ka, !.dflt = df]
     \/ \E w \in {"min", "max"} : \E whole \in BOOLEAN : \E vp \in ValPatterns(Len(in.a.cells)) :
          /\ NDim(in.a) <= ArgDim /\ Len(in.a.cells) <= (IF ArgDim = 2 THEN 6 ELSE 18)
          /\ in' = [in EXCEPT !.op = "argext", !.which = w, !.whole = whole, !.a = [in.a EXCEPT !.cells = vp]]

Apply ==
  /\ ph = 2 /\ ph' = 3 /\ in' = in
  /\ out' = CASE in.op \in {"cumsum", "cumprod"} -> Cum(in.a, in.d)
              [] in.op = "diff" -> Diff(in.a, in.d, in.n, in.scheme, in.keepaxis)
              [] in.op = "argext" -> IF in.whole THEN ArgExtAll(in.a, in.which) ELSE ArgExtAxis(in.a, in.d, in.which)
  /\ (Emit => PrintT(ToJson([op |-> in.op, in |-> in, out |-> out'])))
Next == ChooseArray \/ ChooseOp \/ Apply
Spec == Init /\ [][Next]_vars

(* ---------- theorems ---------- *)
\* cumulative operations keep every axis
CumKeepsAxes == (ph = 3 /\ in.op \in {"cumsum", "cumprod"}) => (out.dims = in.a.dims /\ out.labs = in.a.labs /\ out.attrs = in.a.attrs)
\* diff shortens only the differenced axis, by n (never below 0), or keeps it with n padded cells
DiffAxis ==
  (ph = 3 /\ in.op = "diff") =>
     LET L == in.a.labs[in.d]  R == out.labs[in.d]  n == in.n IN
     /\ \A i \in 1..NDim(in.a) : i # in.d => out.labs[i] = in.a.labs[i]
     /\ IF in.keepaxis THEN R = L ELSE Len(R) = (IF Len(L) >= n THEN Len(L) - n ELSE 0)
     /\ (~in.keepaxis /\ in.scheme = "backward") => R = SubSeq(L, n + 1, Len(L))
     /\ (~in.keepaxis /\ in.scheme = "forward") => R = SubSeq(L, 1, Len(L) - n)
     /\ in.keepaxis => Cardinality({k \in 1..Len(out.cells) : out.cells[k].nan}) = Min2(n, Len(L)) * (Len(out.cells) \div Len(L))
\* indexing the array with the returned labels yields the extremum (the law of the property), on the spec
ArgLaw ==
  (ph = 3 /\ in.op = "argext" /\ in.whole) =>
     LET v == At(in.a, [i \in 1..NDim(in.a) |-> FirstPos(in.a.labs[i], out[i])[1]])
     IN IF NaN \in Rng(in.a.cells) THEN v = NaN
        ELSE \A k \in 1..Len(in.a.cells) : IF in.which = "min" THEN v <= in.a.cells[k] ELSE v >= in.a.cells[k]
=============================================================================
