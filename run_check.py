#!/usr/bin/env python
"""python run_check.py <property id> --tier quick|thorough [--replay file]

Exit 0: property held on everything explored; 1: VIOLATION line(s) printed; 2: machinery failure.
"""
import argparse
import os
import sys

os.environ.setdefault("PYTHONHASHSEED", "0")
sys.path.insert(0, os.path.dirname(os.path.abspath(__file__)))


def main():
    ap = argparse.ArgumentParser()
    ap.add_argument("prop")
    ap.add_argument("--tier", default=os.environ.get("VERIF_TIER", "quick"))
    ap.add_argument("--replay", default=None)
    args = ap.parse_args()
    seed = int(os.environ.get("VERIF_SEED", "0") or 0)
    from harness import engine
    sys.exit(engine.run(args.prop.upper(), args.tier, seed, only_replay=args.replay))


if __name__ == "__main__":
    main()
