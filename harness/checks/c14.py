"""C14 - Dataset-wide operations equal the per-variable operations."""
import numpy as np

from .. import absarr as A

PROP = "C14"
RULE = ("every Dataset of 1-2 (thorough 1-3) variables drawn from a pool of dimension lists that overlap partially (incl. 0-d variables and "
        "variables listing the dims in another order than the Dataset) x every listed operation x every dimension of the Dataset, enumerated by "
        "TLC from spec/MC_C14.tla with the set of affected variables and the resulting dims; each affected variable is compared with the "
        "DimArray operation on it, each other variable with the original, the result with the shared-axes rule")
ASSUMPTIONS = ["the per-variable DimArray operation is the oracle, as the property states (it is itself decided by C01-C18)",
               "concatenate_ds only for Datasets whose variables all have the concatenation axis"]

FLOORS = {"op=take_scalar": (50, 50), "op=mean": (50, 50), "op=take_axis": (50, 50), "op=sort_axis": (50, 50), "op=reindex_axis": (50, 50),
          "op=interp_axis": (20, 20), "op=add_ds": (20, 20), "op=stack_ds": (20, 20), "op=concatenate_ds": (20, 20), "has-unaffected": (500, 500),
          "has-0d": (300, 300), "var-dims-reordered": (300, 300), "by-position": (500, 500), "op=construct_misaligned": (20, 20), "op=add_ds_misaligned": (20, 20), "op=concatenate_ds_align": (10, 10),
          "op=take_scalar_keepdims": (50, 50), "op=reindex_right": (50, 50), "op=take_axis_wrap": (50, 50), "op=reindex_left": (50, 50), "op=concatenate_ds_mismatch": (10, 10), "rejects": (5, 5),
          "op=to_array": (20, 20), "op=to_array_keys": (20, 20), "op=to_array_roundtrip": (20, 20)}

LABELS = {"x": [4, 2, 6], "y": [6.0, 2.0], "z": ["k2", "k6"]}      # x shuffled, y decreasing, z increasing (str)


def tlc_jobs(tier, seed):
    return [dict(tag=tier, module="MC_C14", cfg=dict(constants=dict(MaxVars=(2 if tier == "quick" else 3), Emit=True), invariants=["Consistent"]),
                 run=dict(timeout=3000))]


def classify(scn):
    i = scn["in"]
    out = ["op=" + i["op"]]
    if not all(scn["out"]["affected"]):
        out.append("has-unaffected")
    if any(len(v) == 0 for v in i["vars"]):
        out.append("has-0d")
    if any(v == ["y", "x"] for v in i["vars"]):
        out.append("var-dims-reordered")
    if not i["byname"]:
        out.append("by-position")
    if scn["out"].get("rejects") and all(i["d"] in v for v in i["vars"]):
        out.append("rejects")
    return out


def signature(scn, what_kind):
    i = scn["in"]
    return "dataset_op/%s/d=%s/byname=%s/vars=%s/%s" % (i["op"], i["d"] or "-", i["byname"], "|".join(",".join(v) or "-" for v in i["vars"]), what_kind)


# data types by key: the second variable holds integers (booleans when the operation is a reduction), the others floats
DTYPES = {"b": "i"}


def _mk_var(dims, base, dtype="f"):
    shape = [len(LABELS[d]) for d in dims]
    n = int(np.prod(shape)) if shape else 1
    vals = (np.arange(n, dtype=float) + base + 0.25).reshape(shape)
    if dtype == "i":
        vals = np.asarray(vals, dtype=int)
    elif dtype == "?":
        vals = (np.asarray(vals, dtype=int) % 3) > 0
    elif n >= 2:
        vals[np.unravel_index(n - 1, vals.shape)] = np.nan        # one missing value per variable (at the last stored position)
    v = A.DimArray(vals, axes=[A.Axis(np.array(LABELS[d], dtype=object) if d == "z" else LABELS[d], d) for d in dims])
    v.attrs["tag"] = "var%d" % base
    return v


def _mk_ds(varlist, offset=0):
    ds = A.Dataset()
    for k, dims in zip("abcd", varlist):
        ds[k] = _mk_var(dims, 100 * ("abcd".index(k) + 1) + offset, DTYPES.get(k, "f"))
    ds.attrs.update(A.attrs_enc(9))
    return ds


def _same(a, b):
    """'' if two results (DimArray or scalar) are equal, else a description"""
    if isinstance(a, A.DimArray) != isinstance(b, A.DimArray):
        if not isinstance(a, A.DimArray) and isinstance(b, A.DimArray) and b.ndim == 0:
            b = b.values[()]
        elif not isinstance(b, A.DimArray) and isinstance(a, A.DimArray) and a.ndim == 0:
            a = a.values[()]
        else:
            return "one is %s, the other %s" % (type(a).__name__, type(b).__name__)
    if not isinstance(a, A.DimArray):
        x, y = np.asarray(a), np.asarray(b)
        ok = (x.shape == y.shape) and bool(np.all((x == y) | ((x != x) & (y != y))))
        return "" if ok else "scalars %r vs %r" % (a, b)
    if a.dims != b.dims:
        return "dims %s vs %s" % (a.dims, b.dims)
    for ax, bx in zip(a.axes, b.axes):
        la, lb = ax.values.tolist(), bx.values.tolist()
        if len(la) != len(lb) or any(not (p == q or (p != p and q != q)) for p, q in zip(la, lb)):
            return "labels of %s: %s vs %s" % (ax.name, la, lb)
    x, y = np.asarray(a.values), np.asarray(b.values)
    if x.shape != y.shape:
        return "shapes %s vs %s" % (x.shape, y.shape)
    if x.dtype.kind != y.dtype.kind:
        return "dtype %s vs %s" % (x.dtype, y.dtype)
    if x.dtype.kind == "f":
        if not np.allclose(x, y, rtol=1e-12, atol=0, equal_nan=True):
            return "values %s vs %s" % (x.tolist(), y.tolist())
    elif not np.array_equal(x, y):
        return "values %s vs %s" % (x.tolist(), y.tolist())
    return ""


def _ops(i, ds, ds2, ds3=None):
    """returns (function on the dataset, function on one variable (k, v), keepattrs)"""
    o, d = i["op"], i["d"]
    byname = i["byname"]
    L = LABELS.get(d, [])
    axd = d if byname else (list(ds.dims).index(d) if d in ds.dims else 0)
    l0, l1 = (L[0], L[1]) if L else (None, None)
    if o == "take_scalar":
        return (lambda: ds.take(indices={d: l0}) if byname else ds.take(indices=l0, axis=axd)), (lambda k, v: v.take({d: l0}))
    if o == "take_scalar_keepdims":
        return (lambda: ds.take(indices={d: l0}, keepdims=True) if byname else ds.take(indices=l0, axis=axd, keepdims=True)), (lambda k, v: v.take({d: l0}, keepdims=True))
    if o == "isel_scalar_keepdims":
        return (lambda: ds.take(indices={d: 1}, indexing="position", keepdims=True)), (lambda k, v: v.take({d: 1}, indexing="position", keepdims=True))
    if o == "take_list":
        return (lambda: ds.take(indices={d: [l1, l0]}) if byname else ds.take(indices=[l1, l0], axis=axd)), (lambda k, v: v.take({d: [l1, l0]}))
    if o == "take_slice":
        return (lambda: ds.loc[{d: slice(l0, l1)}] if byname else ds.take(indices=slice(l0, l1), axis=axd)), (lambda k, v: v.take({d: slice(l0, l1)}))
    if o == "take_position":
        return (lambda: ds.ix[{d: [1, 0]}] if byname else ds.take(indices=[1, 0], axis=axd, indexing="position")), (lambda k, v: v.take({d: [1, 0]}, indexing="position"))
    if o == "isel_scalar":
        return (lambda: ds.isel(**{d: 1})), (lambda k, v: v.isel(**{d: 1}))
    if o == "sel_list":
        return (lambda: ds.sel(**{d: [l1]})), (lambda k, v: v.sel(**{d: [l1]}))
    if o in ("mean", "sum", "std", "var", "median"):
        return (lambda: getattr(ds, o)(axis=axd)), (lambda k, v: getattr(v, o)(axis=d))
    if o == "take_axis":
        return (lambda: ds.take_axis([l1, l0], axis=axd)), (lambda k, v: v.take_axis([l1, l0], axis=d))
    if o == "take_axis_wrap":
        return (lambda: ds.take_axis([len(L) + 1, -1, 1], axis=axd, indexing="position", mode="wrap")), \
               (lambda k, v: v.take_axis([len(L) + 1, -1, 1], axis=d, indexing="position", mode="wrap"))
    if o == "take_axis_clip":
        return (lambda: ds.take_axis([len(L) + 1, 0], axis=axd, indexing="position", mode="clip")), \
               (lambda k, v: v.take_axis([len(L) + 1, 0], axis=d, indexing="position", mode="clip"))
    if o == "sort_axis":
        return (lambda: ds.sort_axis(axis=axd)), (lambda k, v: v.sort_axis(axis=d))
    if o == "reindex_axis":
        new = [l1, l0]
        return (lambda: ds.reindex_axis(new, axis=axd)), (lambda k, v: v.reindex_axis(new, axis=d))
    if o == "reindex_fill":
        new = [l1, 5 if d == "x" else 5.0, l0]
        return (lambda: ds.reindex_axis(new, axis=axd)), (lambda k, v: v.reindex_axis(new, axis=d))
    if o in ("reindex_left", "reindex_right"):
        # labels between, on, below and above the existing ones; neighbour in sorted order as numpy.searchsorted(side=method)
        new = [l1, 5 if d == "x" else 5.0, l0, 1 if d == "x" else 1.0, 9 if d == "x" else 9.0]
        m = o[8:]
        return (lambda: ds.reindex_axis(new, axis=axd, method=m)), (lambda k, v: v.reindex_axis(new, axis=d, method=m))
    if o == "interp_axis":
        new = [3.0, 5.0, 2.0, 4.0] if d == "x" else [3.0, 6.0]       # 4.0: the label whose right neighbour holds the missing value
        return (lambda: ds.interp_axis(new, axis=axd)), (lambda k, v: v.interp_axis(new, axis=d))
    if o == "interp_axis_nodes":
        new = [2.0, 6.0] if d == "x" else [6.0, 2.0]          # every requested point is an existing label
        return (lambda: ds.interp_axis(new, axis=axd)), (lambda k, v: v.interp_axis(new, axis=d))
    if o == "interp_axis_oob":
        new = [1.0, 5.0, 7.0]
        return (lambda: ds.interp_axis(new, axis=axd)), (lambda k, v: v.interp_axis(new, axis=d))
    if o == "add_ds":
        return (lambda: ds + ds2), (lambda k, v: v + ds2[k])
    if o == "mul_scalar":
        return (lambda: ds * 2), (lambda k, v: v * 2)
    if o == "rsub_scalar":
        return (lambda: 2 - ds), (lambda k, v: 2 - v)
    if o == "neg":
        return (lambda: -ds), (lambda k, v: -v)
    if o in ("add_ds_misaligned", "sub_ds_misaligned"):
        import operator
        f = operator.add if o.startswith("add") else operator.sub
        return (lambda: f(ds, ds3)), (lambda k, v: f(v, ds3[k]))
    if o == "stack_ds_align":
        return (lambda: A.da.stack_ds([ds, ds3], axis="k", keys=[0, 1], align=True)), (lambda k, v: A.da.stack([v, ds3[k]], axis="k", keys=[0, 1], align=True))
    if o in ("concatenate_ds_align", "concatenate_ds_align_pos"):
        axc = d if o == "concatenate_ds_align" else list(ds.dims).index(d)
        return (lambda: A.da.concatenate_ds([ds, ds3], axis=axc, align=True)), (lambda k, v: A.da.concatenate([v, ds3[k]], axis=d, align=True))
    if o == "concatenate_ds_mismatch":
        ds4 = _mk_ds(i["vars"], offset=30)
        if "x" in ds4.dims:
            ds4.axes["x"][:] = [6, 2, 4]
        if "y" in ds4.dims:
            ds4.axes["y"][:] = [2.0, 6.0]
        return (lambda: A.da.concatenate_ds([ds, ds4], axis=d)), (lambda k, v: A.da.concatenate([v, ds4[k]], axis=d))
    if o == "stack_ds_align_sort_same":
        return (lambda: A.da.stack_ds([ds, ds2], axis="k", keys=[0, 1], align=True, sort=True)), \
               (lambda k, v: A.da.stack([v, ds2[k]], axis="k", keys=[0, 1], align=True, sort=True))
    if o == "stack_ds":
        return (lambda: A.da.stack_ds([ds, ds2], axis="k", keys=[0, 1])), (lambda k, v: A.da.stack([v, ds2[k]], axis="k", keys=[0, 1]))
    if o == "concatenate_ds":
        return (lambda: A.da.concatenate_ds([ds, ds2], axis=d)), (lambda k, v: A.da.concatenate([v, ds2[k]], axis=d))
    raise ValueError(o)


def replay(scn):
    global DTYPES
    DTYPES = {"b": "?"} if scn["in"]["op"] in ("mean", "sum", "std", "var", "median") else {"b": "i"}
    try:
        return _replay(scn)
    finally:
        DTYPES = {"b": "i"}


def _replay(scn):
    i = scn["in"]
    exp = scn["out"]
    viol, calls = [], 0
    o = i["op"]
    old = np.seterr(all="ignore")
    try:
        if o.startswith("concatenate_ds") and (not i["d"] or not all(i["d"] in v for v in i["vars"])):
            return dict(violations=[], calls=0)
        if o in ("stack_ds_align", "stack_ds_align_sort_same") and len(set(tuple(sorted(v)) for v in i["vars"])) > 1:
            return dict(violations=[], calls=0)      # align(strict=True) wants every dataset dimension in every variable
        if o == "construct_misaligned":
            return _replay_construct(scn)
        if o.startswith("to_array"):
            return _replay_to_array(scn)
        ds = _mk_ds(i["vars"])
        ds2 = _mk_ds(i["vars"], offset=50)
        before = {k: A.snapshot(ds[k]) for k in ds.keys()}
        bdims = tuple(ds.dims)
        ds3 = _mk_ds(i["vars"], offset=70)          # same variables, other labels: x shifted / overlapping, y permuted
        if "x" in ds3.dims:
            ds3.axes["x"][:] = [2, 6, 8]
        if "y" in ds3.dims:
            ds3.axes["y"][:] = [2.0, 6.0]
        dsop, varop = _ops(i, ds, ds2, ds3)
        calls += 1
        what = None
        try:
            res = dsop()
            if exp.get("rejects"):
                what, kind = "the Dataset operation accepted inputs that the DimArray operation rejects (secondary axes differ)", "not-rejected"
        except Exception as e:  # noqa
            if exp.get("rejects"):
                # differential: the per-variable operation must reject at least one variable, too
                rej = 0
                for k in ds.keys():
                    try:
                        varop(k, ds[k])
                    except Exception:  # noqa
                        rej += 1
                if rej == 0:
                    what, kind = "specification and Dataset reject, the DimArray operation accepts every variable", "oracle-disagrees"
                elif {k: A.snapshot(ds[k]) for k in ds.keys()} != before or tuple(ds.dims) != bdims:
                    what, kind = "the operand Dataset was modified by a rejected operation", "operand-modified"
                if what:
                    viol.append(dict(what=what, sig=signature(scn, kind), variant="-"))
                return dict(violations=viol, calls=calls + len(ds.keys()))
            what = "Dataset operation raised %s: %s" % (type(e).__name__, str(e)[:200])
            kind = "raised:" + type(e).__name__
        if what is None and ({k: A.snapshot(ds[k]) for k in ds.keys()} != before or tuple(ds.dims) != bdims):
            what, kind = "the operand Dataset was modified", "operand-modified"
        if what is None and not isinstance(res, A.Dataset):
            what, kind = "result is %s" % type(res).__name__, "not-a-dataset"
        if what is None and list(res.keys()) != list(ds.keys()):
            what, kind = "keys: expected %s got %s" % (list(ds.keys()), list(res.keys())), "keys"
        if what is None:
            for n, k in enumerate(ds.keys()):
                calls += 1
                want = varop(k, ds[k]) if exp["affected"][n] else ds[k]
                w = _same(res[k], want)
                if not w and isinstance(want, A.DimArray) and isinstance(res[k], A.DimArray) and dict(res[k].attrs) != dict(want.attrs):
                    w = "metadata %r vs %r" % (dict(res[k].attrs), dict(want.attrs))       # the variable's own metadata, as the DimArray operation carries it
                if w:
                    what = "variable %s (%s): Dataset result differs from %s: %s" % (
                        k, ",".join(i["vars"][n]) or "0-d", "the DimArray operation" if exp["affected"][n] else "the unchanged variable", w)
                    kind = "var-differs:" + ("affected" if exp["affected"][n] else "unaffected")
                    break
        if what is None:
            for k in res.keys():
                v = dict.__getitem__(res, k)
                for j, name in enumerate(v.dims):
                    if name not in res.dims or v.axes[j] is not res.axes[name]:
                        what, kind = "result variable %s does not share the result Dataset's axis %s" % (k, name), "sharing"
        if what is None and set(res.dims) != set(exp["dims"]):
            what, kind = "dataset dims: expected %s got %s" % (exp["dims"], list(res.dims)), "dims"
        if what is None and exp["attrs"] and A.attrs_dec(res.attrs) != 9:
            what, kind = "dataset metadata not carried over: %r" % (dict(res.attrs),), "attrs"
        if what:
            viol.append(dict(what=what, sig=signature(scn, kind), variant="-"))
    finally:
        np.seterr(**old)
    return dict(violations=viol, calls=calls)


def _replay_to_array(scn):
    """Dataset.to_array: the slice at every key is that variable broadcast by name onto the Dataset's axes"""
    import itertools
    i = scn["in"]
    exp = scn["out"]
    o = i["op"]
    ds = _mk_ds(i["vars"])
    before = {k: A.snapshot(ds[k]) for k in ds.keys()}
    bdims = tuple(ds.dims)
    keys = list(ds.keys())
    want_keys = keys if o != "to_array_keys" else [keys[-1], keys[0]][:max(1, len(keys))]
    what = kind = None
    calls = 1
    try:
        if o == "to_array_default":
            arr = ds.to_array()
        elif o == "to_array_keys":
            arr = ds.to_array(axis="k", keys=want_keys)
        else:
            arr = ds.to_array(axis="k", keys=list(keys))
    except Exception as e:  # noqa
        return dict(violations=[dict(what="raised %s: %s" % (type(e).__name__, str(e)[:200]), sig="dataset_op/%s/raised:%s" % (o, type(e).__name__), variant="-", observation=True)], calls=1)
    kname = "unnamed" if o == "to_array_default" else "k"
    if {k: A.snapshot(ds[k]) for k in ds.keys()} != before or tuple(ds.dims) != bdims:
        what, kind = "the operand Dataset was modified", "operand-modified"
    if what is None and not isinstance(arr, A.DimArray):
        what, kind = "result is %s" % type(arr).__name__, "not-a-dimarray"
    if what is None and list(arr.dims) != [kname] + list(bdims):
        what, kind = "dims: expected %s got %s" % ([kname] + list(bdims), list(arr.dims)), "dims"
    if what is None and list(arr.dims) != (exp["dims"] if o != "to_array_roundtrip" else ["k"] + exp["dims"]):
        what, kind = "dims: specification %s got %s" % (exp["dims"], list(arr.dims)), "dims"
    if what is None and arr.axes[0].values.tolist() != want_keys:
        what, kind = "labels of the key axis: expected %s got %s" % (want_keys, arr.axes[0].values.tolist()), "keys"
    if what is None:
        for d in bdims:
            if arr.axes[d].values.tolist() != ds.axes[d].values.tolist():
                what, kind = "labels of %s: expected %s got %s" % (d, ds.axes[d].values.tolist(), arr.axes[d].values.tolist()), "labels"
    if what is None:
        ranges = [range(len(ds.axes[d])) for d in bdims]
        for n, k in enumerate(want_keys):
            v = ds[k]
            for c in itertools.product(*ranges):
                got = arr.values[(n,) + c]
                own = tuple(c[bdims.index(d)] for d in v.dims)
                src = v.values[own]
                if not (got == src or (got != got and src != src)):
                    what, kind = "slice %s at %s: expected %r (variable %s at its own coordinate %s) got %r" % (k, c, src, k, own, got), "values"
                    break
            if what:
                break
    if what is None and o == "to_array_roundtrip":
        calls += 1
        try:
            back = arr.to_dataset(axis="k")
            if list(back.keys()) != keys:
                what, kind = "round trip keys: expected %s got %s" % (keys, list(back.keys())), "roundtrip-keys"
            else:
                for n, k in enumerate(keys):
                    w = _same(back[k], arr.take(k, axis="k"))
                    if w:
                        what, kind = "round trip: variable %s differs from the slice of the array: %s" % (k, w), "roundtrip-values"
                        break
                    if tuple(back[k].dims) != bdims:
                        what, kind = "round trip: variable %s has dims %s, expected %s" % (k, back[k].dims, bdims), "roundtrip-dims"
                        break
            if what is None:
                for k in back.keys():
                    v = dict.__getitem__(back, k)
                    for j, name in enumerate(v.dims):
                        if v.axes[j] is not back.axes[name]:
                            what, kind = "round trip: variable %s does not share the Dataset's axis %s" % (k, name), "sharing"
        except Exception as e:  # noqa
            what, kind = "round trip raised %s: %s" % (type(e).__name__, str(e)[:200]), "roundtrip-raised"
    # to_array / to_dataset are not among the operations the statement of C14 lists: a disagreement is an observation
    viol = [dict(what=what, sig="dataset_op/%s/%s" % (o, kind), variant="-", observation=True)] if what else []
    return dict(violations=viol, calls=calls)


def _replay_construct(scn):
    """Dataset(...) from arrays with differing labels aligns them first (outer join)"""
    i = scn["in"]
    arrs = []
    for n, dims in enumerate(i["vars"]):
        v = _mk_var(dims, 100 * (n + 1))
        if n % 2 == 1:
            for d in dims:        # shift the labels of every other variable
                if d == "x":
                    v.axes[d][:] = [2, 8, 4]
                elif d == "y":
                    v.axes[d][:] = [2.0, 4.0]
        arrs.append(v)
    keys = list("abcd")[:len(arrs)]
    before = [A.snapshot(v) for v in arrs]
    what = kind = None
    try:
        ds = A.Dataset(dict(zip(keys, arrs)))
        want = A.da.align(arrs)
    except Exception as e:  # noqa
        what, kind = "raised %s: %s" % (type(e).__name__, str(e)[:200]), "raised:" + type(e).__name__
    if what is None and [A.snapshot(v) for v in arrs] != before:
        what, kind = "input arrays modified by Dataset construction", "operand-modified"
    if what is None:
        for k, w in zip(keys, want):
            m = _same(ds[k], w)
            if m:
                what, kind = "variable %s differs from align()'s output: %s" % (k, m), "var-differs"
                break
    if what is None:
        for k in ds.keys():
            v = dict.__getitem__(ds, k)
            for j, name in enumerate(v.dims):
                if v.axes[j] is not ds.axes[name]:
                    what, kind = "variable %s does not share axis %s" % (k, name), "sharing"
    viol = [dict(what=what, sig=signature(scn, kind), variant="-")] if what else []
    return dict(violations=viol, calls=1)
