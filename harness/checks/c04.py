"""C04 - arithmetic aligns operands by dimension name and by label."""
import operator

import numpy as np

from .. import absarr as A

PROP = "C04"
RULE = ("every operand pair enumerated by TLC from spec/MC_C04.tla (all ordered pairs of label sequences on one shared dimension; "
        "dimension configurations with private / shared / reordered / 0-d operands), each evaluated with the six operators, scalar "
        "left/right and ndarray right operands, label kinds int / float / str / mixed and int / float data")
ASSUMPTIONS = ["NumPy ufuncs are the arithmetic oracle", "default options op.reindex=True, op.broadcast=True", "axes are non-empty"]

OPS = [("add", operator.add, np.add), ("sub", operator.sub, np.subtract), ("mul", operator.mul, np.multiply),
       ("truediv", operator.truediv, np.true_divide), ("floordiv", operator.floordiv, np.floor_divide), ("pow", operator.pow, np.power)]

FLOORS = {"rel=equal": (10, 10), "rel=permuted": (10, 10), "rel=nested": (20, 20), "rel=overlap": (10, 10), "rel=disjoint": (10, 10),
          "private=left": (20, 20), "private=right": (20, 20), "private=both": (20, 20), "dims-reordered": (20, 20), "0d": (5, 5),
          "free-order": (50, 50)}


def tlc_jobs(tier, seed):
    return [dict(tag=tier, module="MC_C04",
                 cfg=dict(constants=dict(U={2, 4, 6}, Full=(tier != "quick"), Emit=True),
                          invariants=["DimsRule", "UnionRule", "PairRule", "Commutes", "SelfNoFill"]),
                 run=dict(timeout=3000))]


def _rel(i):
    a, b = i["a"], i["b"]
    if "x" not in a["dims"] or "x" not in b["dims"]:
        return "nox"
    xa, xb = a["labs"][a["dims"].index("x")], b["labs"][b["dims"].index("x")]
    sa, sb = set(xa), set(xb)
    if xa == xb:
        return "equal"
    if sa == sb:
        return "permuted"
    if not (sa & sb):
        return "disjoint"
    if sa <= sb or sb <= sa:
        return "nested"
    return "overlap"


def classify(scn):
    i = scn["in"]
    a, b = i["a"], i["b"]
    out = ["rel=" + _rel(i)]
    pa = [d for d in a["dims"] if d not in b["dims"]]
    pb = [d for d in b["dims"] if d not in a["dims"]]
    if pa and pb:
        out.append("private=both")
    elif pa:
        out.append("private=left")
    elif pb:
        out.append("private=right")
    shared_a = [d for d in a["dims"] if d in b["dims"]]
    shared_b = [d for d in b["dims"] if d in a["dims"]]
    if shared_a != shared_b:
        out.append("dims-reordered")
    if not a["dims"] or not b["dims"]:
        out.append("0d")
    if scn["out"]["free"]:
        out.append("free-order")
    return out


def _order(L):
    if len(L) < 2:
        return "short"
    return "inc" if L == sorted(L) else ("dec" if L == sorted(L, reverse=True) else "shuffled")


def signature(scn, variant, opname):
    i = scn["in"]
    return "binop/%s/%s/%s/dims=%s|%s/rel=%s/orders=%s|%s" % (
        opname, i["fam"], variant, ",".join(i["a"]["dims"]) or "-", ",".join(i["b"]["dims"]) or "-", _rel(i),
        ",".join(_order(l) for l in i["a"]["labs"]), ",".join(_order(l) for l in i["b"]["labs"]))


def _side(cells, k, dtype, shape):
    vals = [c[k] for c in cells]
    if any(v < 0 for v in vals) or dtype == "f":
        arr = np.array([np.nan if v < 0 else A.cell_enc(v, dtype) for v in vals], dtype=float)
    else:
        arr = np.array([A.cell_enc(v, dtype) for v in vals], dtype=int)
    return arr.reshape(shape)


def _same(x, y):
    x, y = np.asarray(x), np.asarray(y)
    if x.shape != y.shape:
        return False
    if x.dtype.kind != y.dtype.kind:
        return False
    if x.dtype.kind == "f":
        return bool(np.array_equal(x, y, equal_nan=True))
    return bool(np.array_equal(x, y))


VARIANTS = [("i", "ii"), ("f", "ff"), ("s", "if"), ("mixed", "fi"), ("u", "fi"), ("f@big", "ff"), ("mixed@big", "if")]
# (label kinds, data dtypes of a and b); u: unsigned labels; f@big: float labels around 1e6 spaced by 0.5; mixed@big: int and float labels around 2e7


def replay(scn):
    i = scn["in"]
    exp = scn["out"]["arr"]
    free = scn["out"]["free"]
    viol, calls = [], 0
    shape = [len(l) for l in exp["labs"]]
    old = np.seterr(all="ignore")
    try:
        for vi, (lk, dts) in enumerate(VARIANTS):
            mixed = lk.startswith("mixed")
            codec = A.LabelCodec(mixed=mixed, offset={"f@big": 2000000, "mixed@big": 40400200}.get(lk, 0))
            ka = "i" if mixed else lk[0]
            kb = "f" if mixed else lk[0]
            a_abs = dict(i["a"], dtype=dts[0])
            b_abs = dict(i["b"], dtype=dts[1])
            a = A.gamma(a_abs, codec, [ka] * len(a_abs["dims"]))
            b = A.gamma(b_abs, codec, [kb] * len(b_abs["dims"]))
            EA = _side(exp["cells"], 0, dts[0], shape)
            EB = _side(exp["cells"], 1, dts[1], shape)
            ba, bb = A.snapshot(a), A.snapshot(b)
            for name, pyop, ufunc in OPS:
                calls += 1
                what = None
                try:
                    res = pyop(a, b)
                except Exception as e:  # noqa
                    what = "raised %s: %s" % (type(e).__name__, str(e)[:200])
                if what is None and (A.snapshot(a) != ba or A.snapshot(b) != bb):
                    what = "operand modified"
                if what is None:
                    expected = ufunc(EA, EB)
                    if not isinstance(res, A.DimArray):
                        if shape == []:
                            if not _same(np.asarray(res), expected):
                                what = "0-d result: expected %r got %r" % (expected, res)
                        else:
                            what = "result is %s" % type(res).__name__
                    else:
                        try:
                            pa = A.project_axes(res, codec)
                        except A.Unprojectable as ex:
                            what = "result not projectable: %s" % ex
                        if what is None and pa["dims"] != exp["dims"]:
                            what = "dims: expected %s got %s" % (exp["dims"], pa["dims"])
                        if what is None:
                            vals = res.values
                            labs = [list(l) for l in pa["labs"]]
                            for d, dname in enumerate(pa["dims"]):
                                e = exp["labs"][d]
                                if dname in free:
                                    if sorted(labs[d]) != sorted(e) or len(set(labs[d])) != len(labs[d]):
                                        what = "labels of %s: expected a permutation of %s got %s" % (dname, e, labs[d])
                                        break
                                    vals = np.take(vals, [labs[d].index(v) for v in e], axis=d)
                                elif labs[d] != e:
                                    what = "labels of %s: expected %s got %s" % (dname, e, labs[d])
                                    break
                            if what is None and not _same(vals, expected):
                                what = "values: expected %s (%s) got %s (%s)" % (expected.tolist(), expected.dtype, vals.tolist(), vals.dtype)
                            if what is None and pa["attrs"] != 0:
                                what = "result carries the operands' metadata: %r" % (dict(res.attrs),)
                if what:
                    viol.append(dict(what=what, sig=signature(scn, lk + "/" + dts, name), variant="%s %s %s" % (lk, dts, name)))
            # scalar and ndarray operands: NumPy on .values, axes unchanged
            if i["fam"] == "1d" or vi == 0:
                for name, pyop, ufunc in OPS:
                    for form, other in (("scalar_right", 3), ("scalar_left", 3), ("scalar_right", 1.5), ("scalar_left", 1.5), ("scalar_left", 0.25),
                                        ("scalar_left", np.float32(2.5)), ("ndarray_right", None)):
                        if form == "ndarray_right" and a.ndim == 0:
                            continue
                        calls += 1
                        what = None
                        if form == "ndarray_right":
                            other = np.arange(a.values.size).reshape(a.values.shape) + 2
                        try:
                            res = pyop(other, a) if form == "scalar_left" else pyop(a, other)
                            expected = ufunc(other, a.values) if form == "scalar_left" else ufunc(a.values, other)
                        except Exception as e:  # noqa
                            what = "raised %s: %s" % (type(e).__name__, str(e)[:200])
                        if what is None and A.snapshot(a) != ba:
                            what = "operand modified"
                        if what is None:
                            if not isinstance(res, A.DimArray):
                                if a.ndim or not _same(np.asarray(res), expected):
                                    what = "result is %s" % type(res).__name__
                            else:
                                pa = A.project_axes(res, codec)
                                pe = A.project_axes(a, codec)
                                if (pa["dims"], pa["labs"]) != (pe["dims"], pe["labs"]):
                                    what = "axes changed: %s %s" % (pa["dims"], pa["labs"])
                                elif not _same(res.values, expected):
                                    what = "values: expected %s got %s" % (expected.tolist(), res.values.tolist())
                        if what:
                            viol.append(dict(what=what, sig="binop/%s/%s/%s/ndim=%d/other=%s" % (name, form, lk + "/" + dts, a.ndim, type(other).__name__ + (":%s" % other if np.ndim(other) == 0 else "")),
                                             variant="%s %s" % (form, name)))
    finally:
        np.seterr(**old)
    return dict(violations=viol, calls=calls)
