"""C06 - align() is a set union / intersection that neither invents nor loses data."""
import numpy as np

from .. import absarr as A

PROP = "C06"
RULE = ("every list of 1-3 one-dimensional arrays over all label sequences of the universe (incl. empty) and the 2-d configurations, "
        "x join x sort x axis, enumerated by TLC from spec/MC_C06.tla; replayed with kinds int, float, str and mixed int/float")
ASSUMPTIONS = ["label order of the common axis is compared only where the property fixes it (sort=True, same-direction inputs of >= 2 labels, "
               "identical inputs); otherwise modulo a permutation of that axis"]

FLOORS = {"n=1": (30, 30), "n=2": (500, 500), "join=inner": (500, 500), "sort=True": (500, 500), "axis=x": (300, 300),
          "has-empty": (100, 100), "fam=2d": (500, 500), "free-order": (200, 200), "single-holder+sort": (30, 30),
          "inner-empty-result": (50, 50)}


def tlc_jobs(tier, seed):
    return [dict(tag=tier, module="MC_C06",
                 cfg=dict(constants=dict(U={2, 4, 6}, MaxArr=(2 if tier == "quick" else 3), Emit=True),
                          invariants=["SharedAxes", "KeepsData", "OthersUntouched"]),
                 run=dict(timeout=3000))]


def _rel(i):
    arrs = i["arrs"]
    xs = [a["labs"][a["dims"].index("x")] for a in arrs if "x" in a["dims"]]
    if len(xs) < 2:
        return "single"
    s = [set(x) for x in xs]
    if any(not x for x in xs):
        return "empty"
    if all(x == xs[0] for x in xs):
        return "equal"
    if all(t == s[0] for t in s):
        return "permuted"
    if not set.intersection(*s):
        return "disjoint"
    if any(a <= b or b <= a for a in s for b in s if a is not b):
        return "nested"
    return "overlap"


def classify(scn):
    i = scn["in"]
    out = ["n=%d" % len(i["arrs"]), "join=" + i["join"], "sort=%s" % i["sort"], "axis=" + (i["axis"][0] if i["axis"] else "none"),
           "fam=" + i["fam"]]
    if any(len(l) == 0 for a in i["arrs"] for l in a["labs"]):
        out.append("has-empty")
    if scn["out"]["free"]:
        out.append("free-order")
    holders = [a for a in i["arrs"] if "x" in a["dims"]]
    if i["sort"] and (len(holders) == 1 or sum(1 for a in holders if a["labs"][a["dims"].index("x")]) == 1):
        out.append("single-holder+sort")
    if i["join"] == "inner" and any(len(l) == 0 for a in scn["out"]["arrs"] for l in a["labs"]):
        out.append("inner-empty-result")
    return out


def _order(L):
    if len(L) < 2:
        return "short"
    return "inc" if L == sorted(L) else ("dec" if L == sorted(L, reverse=True) else "shuffled")


def signature(scn, variant):
    i = scn["in"]
    orders = "|".join(",".join(_order(l) for l in a["labs"]) for a in i["arrs"])
    return "align/%s/%s/n=%d/join=%s/sort=%s/axis=%s/rel=%s/orders=%s/dims=%s" % (
        i["fam"], variant, len(i["arrs"]), i["join"], i["sort"], i["axis"][0] if i["axis"] else "none", _rel(i), orders,
        "|".join(",".join(a["dims"]) for a in i["arrs"]))


def normalise_free(act, exp, free):
    """reorder the projected actual array along the free dimensions into the expected label order (or explain why not)"""
    cells = np.array(act["cells"], dtype=object).reshape([len(l) for l in act["labs"]])
    labs = [list(l) for l in act["labs"]]
    for d, name in enumerate(act["dims"]):
        if name not in free or d >= len(exp["labs"]):
            continue
        e = exp["labs"][d]
        if sorted(labs[d]) != sorted(e) or len(set(labs[d])) != len(labs[d]):
            return None, "labels of %s: expected a permutation of %s got %s" % (name, e, labs[d])
        perm = [labs[d].index(v) for v in e]
        cells = np.take(cells, perm, axis=d)
        labs[d] = list(e)
    return dict(act, labs=labs, cells=cells.ravel().tolist()), ""


# "@0" variants: the smallest label of the scenario is 0 / 0.0 / '' (falsy labels)
# "mixed@big": int and float labels around 2e7 (dates written yyyymmdd): exact in float64, not in float32
VARIANTS = ["i", "f", "s", "mixed", "i@0", "f@0", "s@0", "mixed@big", "f@big", "u"]     # f@big: floats around 1e6 spaced by 0.5; u: unsigned ints


def replay(scn):
    i = scn["in"]
    viol, calls = [], 0
    free = scn["out"]["free"]
    for variant in VARIANTS:
        mixed = variant.startswith("mixed")
        codec = A.LabelCodec(mixed=mixed, offset=(40400200 if variant == "mixed@big" else 0))
        if variant == "f@big":
            codec = A.LabelCodec(offset=2000000)
        if variant.endswith("@0") and not mixed:
            hs = [h for a in i["arrs"] for l in a["labs"] for h in l]
            if not hs:
                continue
            codec = A.LabelCodec(offset=-min(hs), smin=min(hs))
        objs = []
        for k, a in enumerate(i["arrs"]):
            kinds = [(("i" if k % 2 == 0 else "f") if mixed else variant[0])] * len(a["dims"])
            objs.append(A.gamma(a, codec, kinds))
        for form in ("list", "tuple", "datasets"):
            if form == "datasets" and variant not in ("i", "s", "i@0", "mixed"):
                continue
            before = [A.snapshot(o) for o in objs]
            kw = dict(join=i["join"], sort=i["sort"])
            if i["axis"]:
                kw["axis"] = i["axis"][0]
            calls += 1
            what = None
            try:
                if form == "datasets":        # align() also accepts Datasets: one variable each
                    dss = []
                    for o in objs:
                        d_ = A.Dataset()
                        if o.ndim >= 2:
                            # a first variable over the array's last dimension only: the Dataset then lists its dimensions in
                            # another order than the variable under test does
                            d_["u"] = A.DimArray(np.zeros(o.shape[-1]), axes=[o.axes[-1].copy()])
                        d_["v"] = o
                        dss.append(d_)
                    res = [r["v"] for r in A.da.align(dss, **kw)]
                else:
                    res = A.da.align(objs if form == "list" else tuple(objs), **kw)
            except Exception as e:  # noqa
                what = "raised %s: %s" % (type(e).__name__, str(e)[:200])
                res = None
            if what is None and [A.snapshot(o) for o in objs] != before:
                k = [j for j, o in enumerate(objs) if A.snapshot(o) != before[j]][0]
                what = "input %d modified by align" % k
                objs = None
            if what is None and len(res) != len(scn["out"]["arrs"]):
                what = "expected %d arrays got %d" % (len(scn["out"]["arrs"]), len(res))
            if what is None:
                acts = []
                for k, (r, e) in enumerate(zip(res, scn["out"]["arrs"])):
                    try:
                        act = A.project(r, codec)
                    except A.Unprojectable as ex:
                        what = "output %d not projectable: %s" % (k, ex)
                        break
                    acts.append(act)
                    if act["dims"] != e["dims"]:
                        what = "output %d dims: expected %s got %s" % (k, e["dims"], act["dims"])
                        break
                    nact, why = normalise_free(act, e, free)
                    if nact is None:
                        what = "output %d %s" % (k, why)
                        break
                    ee = dict(e, kinds=nact["kinds"])
                    # (axis-level metadata through Dataset operations is not covered by any property)
                    # integer data become float only where a NaN had to be filled in
                    w = A.compare(ee, nact, free_kinds=True, dtype_any=[e["dtype"]] + (["f"] if -1 in e["cells"] else []),
                                  check_aattrs=(form != "datasets"), check_attrs=(form != "datasets"))
                    if w and not (w.startswith("dtype") and False):
                        what = "output %d %s" % (k, w)
                        break
                if what is None:
                    # identical axes on shared aligned dimensions, also where the order is free
                    for d in free:
                        seqs = [tuple(a["labs"][a["dims"].index(d)]) for a in acts if d in a["dims"]]
                        if len(set(seqs)) > 1:
                            what = "outputs carry different axes on %s: %s" % (d, seqs)
            if what:
                viol.append(dict(what=what, sig=signature(scn, variant), variant="%s %s" % (variant, form)))
            if objs is None:
                break
    return dict(violations=viol, calls=calls)
