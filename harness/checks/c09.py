"""C09 - cumulative, difference and arg-extremum operations keep axis bookkeeping right."""
import numpy as np

from .. import absarr as A

PROP = "C09"
RULE = ("every (operated-axis length 1..MaxLen, label order, ndim 1-3, axis position) x {cumsum, cumprod, diff n x scheme x keepaxis, "
        "argmin/argmax along the axis and over the whole array with ties and NaNs} scenario enumerated by TLC from spec/MC_C09.tla; the spec "
        "gives the cells feeding each output cell and the resulting labels; NumPy evaluates the windows")
ASSUMPTIONS = ["centered differences only on numeric axes", "argmin/argmax with skipna=False"]

FLOORS = {"op=cumsum": (30, 30), "op=cumprod": (30, 30), "op=diff": (500, 500), "op=argext": (300, 300), "scheme=centered": (100, 100),
          "scheme=forward": (100, 100), "keepaxis": (100, 100), "n=3": (100, 100), "len=1": (50, 50), "n>=len": (50, 50),
          "ties": (50, 50), "nan-extremum": (50, 50), "default-axis": (10, 10), "whole": (100, 100)}


def tlc_jobs(tier, seed):
    return [dict(tag=tier, module="MC_C09",
                 cfg=dict(constants=dict(MaxLen=(4 if tier == "quick" else 5), MaxDim=(3 if tier == "quick" else 4), ArgDim=3, Emit=True),
                          invariants=["CumKeepsAxes", "DiffAxis", "ArgLaw"]),
                 run=dict(timeout=3000))]


def classify(scn):
    i = scn["in"]
    op = i["op"]
    L = i["a"]["labs"][i["d"] - 1]
    out = ["op=" + ("argext" if op == "argext" else op), "len=%d" % len(L)]
    if op == "diff":
        out += ["scheme=" + i["scheme"], "n=%d" % i["n"]]
        if i["keepaxis"]:
            out.append("keepaxis")
        if i["n"] >= len(L):
            out.append("n>=len")
    if op == "argext":
        cells = i["a"]["cells"]
        if len(set(cells)) < len(cells):
            out.append("ties")
        if -1 in cells:
            out.append("nan-extremum")
        if i["whole"]:
            out.append("whole")
    if i["dflt"]:
        out.append("default-axis")
    return out


def _order(L):
    if len(L) < 2:
        return "short"
    return "inc" if L == sorted(L) else ("dec" if L == sorted(L, reverse=True) else "shuffled")


def signature(scn, variant):
    i = scn["in"]
    L = i["a"]["labs"][i["d"] - 1]
    base = "%s/%s/ndim=%d/pos=%d/len=%d/order=%s" % (i["op"], variant, len(i["a"]["dims"]), i["d"], len(L), _order(L))
    if i["op"] == "diff":
        base += "/n=%d/scheme=%s/keepaxis=%s" % (i["n"], i["scheme"], i["keepaxis"])
    if i["op"] == "argext":
        base += "/%s/whole=%s/nan=%s/ties=%s" % (i["which"], i["whole"], -1 in i["a"]["cells"], len(set(i["a"]["cells"])) < len(i["a"]["cells"]))
    return base


def _close(x, y):
    x, y = float(x), float(y)
    if x != x or y != y:
        return x != x and y != y
    if np.isinf(x) or np.isinf(y):
        return x == y
    return abs(x - y) <= 1e-9 * max(1.0, abs(x), abs(y))


def replay(scn):
    i = scn["in"]
    a_abs = i["a"]
    exp = scn["out"]
    op = i["op"]
    viol, calls = [], 0
    d = i["d"] - 1
    kvars = ["i", "f"] if (op == "diff" and i["scheme"] == "centered") else ["i", "f", "s", "u"]
    old = np.seterr(all="ignore")
    try:
        for kind in kvars:
            codec = A.LabelCodec(mixed=True)
            kinds = ["i"] * len(a_abs["dims"])
            kinds[d] = kind
            for byname in (True, False, "neg", "digit"):
                a = A.gamma(a_abs, codec, kinds)
                if byname == "digit":
                    if kind != "i" or not all(n in A.DIGIT_NAMES for n in a_abs["dims"]):
                        continue
                    A.digit_dims(a)          # dimensions named '1', '0', ..: the axis is given by such a name
                before = A.snapshot(a)
                ax = a_abs["dims"][d] if byname is True else (d if byname is False else (d - a.ndim if byname == "neg" else A.DIGIT_NAMES[a_abs["dims"][d]]))
                variant = "kind=%s byname=%s" % (kind, byname)
                calls += 1
                what = None
                try:
                    if op in ("cumsum", "cumprod"):
                        res = getattr(a, op)() if (i["dflt"] and byname is True) else getattr(a, op)(axis=ax)
                    elif op == "diff":
                        if i["dflt"] and byname is True:
                            res = a.diff()
                        else:
                            res = a.diff(axis=ax, scheme=i["scheme"], keepaxis=i["keepaxis"], n=i["n"])
                    else:
                        f = getattr(a, "arg" + i["which"])
                        res = f() if i["whole"] else f(axis=ax)
                except Exception as e:  # noqa
                    what = "raised %s: %s" % (type(e).__name__, str(e)[:200])
                if what is None and A.snapshot(a) != before:
                    what = "operand modified"
                if byname == "digit":
                    A.digit_dims(a, back=True)
                    if what is None:
                        A.digit_dims(res, back=True)
                if what is None:
                    what = _check(scn, res, a, codec, kinds, kind) or None
                if what:
                    viol.append(dict(what=what, sig=signature(scn, "kind=%s/byname=%s" % (kind, byname)), variant=variant))
        if op in ("cumsum", "cumprod"):
            # narrow and boolean data: NumPy accumulates int8 / int32 / bool in the platform integer, float32 in float32
            src = A.gamma(a_abs, A.LabelCodec(mixed=True), ["i"] * len(a_abs["dims"]))
            small = np.nan_to_num(np.asarray(src.values, dtype=float)) % 5 + (1 if op == "cumprod" else 0)
            for dt in (np.int8, np.int32, np.float32, bool, np.uint8):
                vals = (small * (40 if dt in (np.int8, np.uint8) and op == "cumsum" else 1)).astype(dt)
                b = A.DimArray(vals, axes=[ax.copy() for ax in src.axes])
                calls += 1
                try:
                    r = getattr(b, op)(axis=d)
                    e = getattr(np, op)(vals, axis=d)
                    if r.values.dtype != e.dtype:
                        what = "%s of %s data: dtype %s, NumPy gives %s" % (op, np.dtype(dt).name, r.values.dtype, e.dtype)
                    elif not np.array_equal(r.values, e, equal_nan=True):
                        what = "%s of %s data: %s, NumPy gives %s" % (op, np.dtype(dt).name, r.values.ravel().tolist()[:8], e.ravel().tolist()[:8])
                    else:
                        what = None
                except Exception as ex:  # noqa
                    what = "%s of %s data raised %s: %s" % (op, np.dtype(dt).name, type(ex).__name__, str(ex)[:150])
                if what:
                    viol.append(dict(what=what, sig=signature(scn, "dtype=%s" % np.dtype(dt).name), variant="dtype=%s" % np.dtype(dt).name))
            # skipna=True on data that hold NaNs: NumPy's nan-aware cumulative result (NaN counts as nothing)
            fv = np.asarray(src.values, dtype=float).copy()
            fv[np.unravel_index(0, fv.shape)] = np.nan
            if fv.size > 2:
                fv[np.unravel_index(fv.size - 2, fv.shape)] = np.nan
            b = A.DimArray(fv.copy(), axes=[ax.copy() for ax in src.axes])
            calls += 1
            try:
                r = getattr(b, op)(axis=d, skipna=True)
                e = getattr(np, "nan" + op)(fv, axis=d)
                what = None if np.array_equal(r.values, e, equal_nan=True) else "%s(skipna=True): %s, NumPy's nan%s gives %s" % (
                    op, r.values.ravel().tolist()[:8], op, e.ravel().tolist()[:8])
            except Exception as ex:  # noqa
                what = "%s(skipna=True) raised %s: %s" % (op, type(ex).__name__, str(ex)[:150])
            if what:
                viol.append(dict(what=what, sig=signature(scn, "skipna"), variant="skipna=True"))
        if op == "diff" and not i["keepaxis"]:
            # boolean, unsigned and large integer data: NumPy's difference in the data's own arithmetic (values and dtype)
            src = A.gamma(a_abs, A.LabelCodec(mixed=True), ["i"] * len(a_abs["dims"]))
            base = np.nan_to_num(np.asarray(src.values, dtype=float))
            for dt, vals in ((bool, (base % 2).astype(bool)), (np.uint8, ((base * 7) % 11).astype(np.uint8)),
                             (np.int64, (base % 5).astype(np.int64) + 2 ** 62)):
                b = A.DimArray(vals, axes=[ax.copy() for ax in src.axes])
                calls += 1
                try:
                    r = b.diff(axis=d, scheme=i["scheme"], keepaxis=False, n=i["n"])
                    e = np.diff(vals, n=i["n"], axis=d)
                    if r.values.dtype != e.dtype:
                        what = "diff of %s data: dtype %s, NumPy gives %s" % (np.dtype(dt).name, r.values.dtype, e.dtype)
                    elif not np.array_equal(r.values, e):
                        what = "diff of %s data: %s, NumPy gives %s" % (np.dtype(dt).name, r.values.ravel().tolist()[:8], e.ravel().tolist()[:8])
                    else:
                        what = None
                except Exception as ex:  # noqa
                    what = "diff of %s data raised %s: %s" % (np.dtype(dt).name, type(ex).__name__, str(ex)[:150])
                if what:
                    viol.append(dict(what=what, sig=signature(scn, "dtype=%s" % np.dtype(dt).name), variant="dtype=%s" % np.dtype(dt).name))
    finally:
        np.seterr(**old)
    return dict(violations=viol, calls=calls)


def _check(scn, res, a, codec, kinds, kind):
    i = scn["in"]
    exp = scn["out"]
    op = i["op"]
    a_abs = i["a"]
    if op == "argext" and i["whole"]:
        labs = res if isinstance(res, tuple) else (res,)
        try:
            got = [codec.dec(x)[0] for x in labs]
        except A.Unprojectable as ex:
            return "returned %r: %s" % (res, ex)
        if got != exp:
            return "labels: expected %s got %s" % (exp, got)
        # the law: indexing with the returned labels yields the extremum
        v = a[tuple(labs)] if len(labs) > 1 else a[labs[0]]
        m = getattr(a.values, i["which"])()
        if not _close(v, m):
            return "a[arg%s()] = %r but %s() = %r" % (i["which"], v, i["which"], m)
        return ""
    if op == "argext":
        if not exp["dims"]:
            if isinstance(res, A.DimArray):
                return "expected a scalar label, got a DimArray"
            try:
                got = codec.dec(res)[0]
            except A.Unprojectable as ex:
                return "returned %r: %s" % (res, ex)
            return "" if [got] == exp["cells"] else "label: expected %s got %s" % (exp["cells"], got)
        if not isinstance(res, A.DimArray):
            return "expected an array of labels, got %s" % type(res).__name__
        try:
            pa = A.project_axes(res, codec)
            got = [codec.dec(x)[0] for x in res.values.ravel().tolist()]
        except A.Unprojectable as ex:
            return "result not projectable: %s" % ex
        e = dict(exp, kinds=[kinds[a_abs["dims"].index(dd)] for dd in exp["dims"]])
        e.pop("cells")
        w = A.compare(e, pa, dtype_any=["i", "f", "O"])
        if w:
            return w
        if got != exp["cells"]:
            return "labels: expected %s got %s" % (exp["cells"], got)
        return ""
    # cumsum / cumprod / diff: arrays of terms
    if not isinstance(res, A.DimArray):
        return "expected a DimArray, got %s" % type(res).__name__
    try:
        pa = A.project_axes(res, codec)
    except A.Unprojectable as ex:
        return "result not projectable: %s" % ex
    e = dict(exp, kinds=[("f" if (op == "diff" and i["scheme"] == "centered" and dd == "x") else kinds[a_abs["dims"].index(dd)]) for dd in exp["dims"]])
    e.pop("cells")
    # the metadata of a relabelled (centered) axis is not promised by the property
    w = A.compare(e, pa, dtype_any=["f", "i"], free_kinds=True, check_aattrs=not (op == "diff" and i["scheme"] == "centered"))
    if w:
        return w
    vals = []
    for t in exp["cells"]:
        if t["nan"]:
            vals.append(np.nan)
            continue
        fv = np.array([A.cell_enc(c, "f") for c in t["fib"]], dtype=float)
        if op == "cumsum":
            vals.append(np.cumsum(fv)[-1])
        elif op == "cumprod":
            vals.append(np.cumprod(fv)[-1])
        else:
            vals.append(np.diff(fv, n=i["n"])[0])
    act = res.values.ravel().tolist()
    if len(act) != len(vals) or not all(_close(x, y) for x, y in zip(vals, act)):
        return "values: expected %s got %s" % (vals, act)
    return ""
