"""C02 - label slices are inclusive bounding boxes; position slices stay NumPy-like."""
from .c01 import replay_take

PROP = "C02"
RULE = ("every (axis, start, stop, step) scenario enumerated by TLC from spec/MC_C02.tla (monotonic / shuffled / string / "
        "position; 1-d and embedded in 2-d with another index kind), replayed through all spellings; distinct = scenario lines")
ASSUMPTIONS = ["slice bounds are of the axis' own kind"]

FLOORS = {"axis=empty": (10, 10), "axis=one": (10, 10), "axis=inc": (100, 100), "axis=dec": (100, 100),
          "axis=shuffled": (50, 50), "axis=string": (50, 50), "axis=position": (100, 100),
          "step=none": (100, 100), "step=pos>1": (100, 100), "step=neg": (100, 100),
          "lo=none": (50, 50), "lo=below": (50, 50), "lo=on": (50, 50), "lo=between": (50, 50), "lo=above": (50, 50),
          "hi=none": (50, 50), "hi=below": (50, 50), "hi=on": (50, 50), "hi=between": (50, 50), "hi=above": (50, 50),
          "embedded": (500, 500), "strict-absent-bound": (20, 20)}


def tlc_jobs(tier, seed):
    if tier == "quick":
        consts = dict(UM={2, 4, 6}, MaxShuf=3, Emit=True)
        subst = dict(Steps="StepsAll", EmbedSteps="EmbedQuick")
    else:
        consts = dict(UM={2, 4, 6, 8, 10}, MaxShuf=4, Emit=True)
        subst = dict(Steps="StepsAll", EmbedSteps="EmbedThorough")
    return [dict(tag=tier, module="MC_C02",
                 cfg=dict(constants=consts, subst=subst, invariants=["BoxSound", "NoWrap", "PosSliceSound", "ResultWF"]),
                 run=dict(timeout=3000))]


def _sliced(scn):
    i = scn["in"]
    for d, (name, ix) in enumerate(zip(i["a"]["dims"], i["idxs"])):
        if name == "x":
            return d, ix, i["a"]["labs"][d]
    raise KeyError


def _axis_class(scn):
    i = scn["in"]
    d, ix, L = _sliced(scn)
    base = i["cls"].replace("-embedded", "")
    if base == "mono":
        if len(L) == 0:
            return "empty"
        if len(L) == 1:
            return "one"
        return "inc" if L[-1] > L[0] else "dec"
    return base


def _bound_class(b, L):
    if not b:
        return "none"
    v = b[0]
    if not L:
        return "on" if v in L else "between"
    if v in L:
        return "on"
    if v < min(L):
        return "below"
    if v > max(L):
        return "above"
    return "between"


def _step_class(st):
    if not st:
        return "none"
    return "neg" if st[0] < 0 else ("pos1" if st[0] == 1 else "pos>1")


def classify(scn):
    i = scn["in"]
    d, ix, L = _sliced(scn)
    ac = _axis_class(scn)
    out = ["axis=" + ac, "step=" + _step_class(ix["st"])]
    if ac != "position":
        out += ["lo=" + _bound_class(ix["lo"], L), "hi=" + _bound_class(ix["hi"], L)]
        if ac in ("shuffled", "string") and not scn["out"]["ok"]:
            out.append("strict-absent-bound")
    if i["cls"].endswith("-embedded"):
        out.append("embedded")
    return out


def signature(scn, kind, spelling):
    i = scn["in"]
    d, ix, L = _sliced(scn)
    ac = _axis_class(scn)
    other = ""
    if i["cls"].endswith("-embedded"):
        other = "/embedded(dim%d,other=%s)" % (d, i["idxs"][1 - d]["k"])
    if ac == "position":
        b = "lo=%s,hi=%s" % ("none" if not ix["lo"] else "int", "none" if not ix["hi"] else "int")
    else:
        b = "lo=%s,hi=%s" % (_bound_class(ix["lo"], L), _bound_class(ix["hi"], L))
        if ix["lo"] and ix["hi"]:
            b += ",lo%shi" % ("<" if ix["lo"][0] < ix["hi"][0] else (">" if ix["lo"][0] > ix["hi"][0] else "="))
    return "slice/%s/axis=%s/kind=%s/step=%s/%s%s/expect=%s" % (
        spelling, ac, kind, _step_class(ix["st"]), b, other, "ok" if scn["out"]["ok"] else scn["out"]["err"])


def replay(scn):
    i = scn["in"]
    kinds = i["a"]["kinds"]
    if i["mode"] == "position":
        variants = [kinds]
    elif "s" in kinds:
        variants = [kinds]
    else:
        variants = [kinds, ["f" if (n == "x") else k for n, k in zip(i["a"]["dims"], kinds)],
                    ["u" if (n == "x") else k for n, k in zip(i["a"]["dims"], kinds)]]        # unsigned integer labels on the sliced axis
    extra = []
    if i["mode"] == "label" and i["cls"] in ("mono", "mono-embedded") and "s" not in kinds:
        # integer axis (labels h/2, h even) sliced with bounds that may be fractional (h/2 as floats)
        extra.append(dict(kinds=list(kinds), idx_kinds=["f" if n == "x" else k for n, k in zip(i["a"]["dims"], kinds)], mixed=True))
    return replay_take(scn, variants, signature, extra)



def post(tier, seed, ctx):
    """code -> spec: randomly driven calls (up to 4-d, axes up to 5 labels) recorded and validated by TLC against spec/TraceOps.tla"""
    from .. import trace_ops
    trace_ops.validate(PROP, tier, seed, ctx, ['slice'])
