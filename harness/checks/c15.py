"""C15 - operations do not modify their operands; copies are independent."""
import copy as _copy
import json

import numpy as np

from .. import absarr as A
from . import c05, c16

PROP = "C15"
RULE = ("(1) the Workspace machine's action properties OperandsUnchanged / CopyIndependent model-checked by TLC and every generated program replayed "
        "with all registers compared after each step (shared with C05); (2) the operand-watch sweep of spec/MC_C15.tla: every non in-place operation "
        "class x operand configuration, run on arrays with unsorted axes, mutable metadata values and live siblings sharing Axis objects, with deep "
        "snapshots of every live object before and after")
ASSUMPTIONS = ["in-place actions only on registers that are alone in their alias group"]

FLOORS = {"sweep": (150, 150), "config=siblings": (70, 70), "act=copy": (50, 50), "act=ctor_meta": (50, 50), "copy-then-inplace": (30, 30), "act=query": (300, 300),
          "act=align_sorted": (50, 50)}


def tlc_jobs(tier, seed):
    jobs = [j for j in c05.tlc_jobs(tier, seed) if not j["tag"].endswith("_ctor") and "_iw_" not in j["tag"]]
    jobs.append(dict(tag=tier + "_sweep", module="MC_C15", cfg=dict(constants=dict(Emit=True), invariants=["Sane"]), run=dict(timeout=600)))
    return jobs


def classify(scn):
    if scn["op"] == "operand_watch":
        return ["sweep", "config=" + scn["in"]["config"]]
    out = c05.classify(scn)
    path = scn["path"]
    for k, p in enumerate(path):
        if p["act"] == "copy" and any(q["act"] in ("setitem", "relabel", "rename", "setattr") for q in path[k + 1:]):
            out.append("copy-then-inplace")
            break
    return out


def deep_snapshot(obj):
    if isinstance(obj, A.Dataset):
        return ("ds", tuple(obj.dims), tuple((ax.name, tuple(ax.values.tolist()), json.dumps(ax.attrs, sort_keys=True, default=repr)) for ax in obj.axes),
                tuple((k, deep_snapshot(dict.__getitem__(obj, k))) for k in obj.keys()), json.dumps(dict(obj.attrs), sort_keys=True, default=repr))
    return A.snapshot(obj) + (json.dumps(dict(obj.attrs), sort_keys=True, default=repr),)


def _ds_of(a, b):
    ds = A.Dataset()
    ds["a"] = a
    ds["b"] = b
    ds.attrs.update(A.attrs_enc(9))
    return ds


def _more(o, a, b):
    """operations beyond the propagation table; returns a list of extra live objects to watch (may be empty)"""
    da = A.da
    if o == "median_tuple":
        a.median(axis=("x", "y"))
        a.T.median(axis=("y", "x"))
    elif o == "median_list_skipna":
        a.median(axis=[0, 1], skipna=True)
    elif o == "sum_tuple":
        a.sum(axis=("y", "x"))
        a.mean(axis=("x", "y"), skipna=True)
    elif o == "argmax_tuple":
        a.argmax(axis=("x", "y"), skipna=True)
    elif o == "flatten_then_median":
        a.flatten().median(axis=0)
        a.flatten(("y", "x")).median(axis=0, skipna=True)
    elif o == "set_axis_copy_all_keywords":
        # every keyword of set_axis with inplace=False: new labels (list / dict / function), a new name, metadata given as attrs= and
        # as single keywords - alone and together
        a.set_axis([7, 8, 9], axis="x", inplace=False)
        a.set_axis({10: 11}, axis="x", inplace=False)
        a.set_axis(lambda v: v + 1, axis="x", inplace=False)
        a.set_axis(name="u", axis="x", inplace=False)
        a.set_axis(attrs={"units": "m"}, axis="x", inplace=False)
        a.set_axis([7, 8, 9], axis=0, name="u", attrs={"units": "m", "k": [1]}, inplace=False)
        a.set_axis(axis="y", units="s", inplace=False)
    elif o == "axis_set_copy":
        # the same through the Axis objects of the operand (K: Axis.set(inplace=False) returns a new axis)
        a.axes["x"].set(values=[7, 8, 9], inplace=False)
        a.axes["x"].set(name="u", inplace=False)
        a.axes["y"].set(values={1.0: 5.0}, inplace=False)
    elif o == "setna_mask_list":
        # setna with a list whose entries are boolean masks (DimArray / ndarray) and values: the masks are operands too
        m1, m2 = a > 4, a.values < 2
        snap = (deep_snapshot(m1), m2.tolist())
        a.setna([m1, 4.])
        a.setna([m2, 6., m1])
        a.setna([m1, m2])
        a.setna(m1)
        if (deep_snapshot(m1), m2.tolist()) != snap:
            raise AssertionError("setna changed a boolean mask passed to it")
    elif o == "fillna_int":
        a.fillna(0)
    elif o == "setna_int_value":
        a.setna(4)
    elif o == "put_copy_cast_int":
        a.put(10, 1, cast=True, inplace=False)
    elif o == "put_copy_cast_float":
        a.put([30, 10], 1.5, cast=True, inplace=False)
    elif o == "align_sort":
        da.align([a, b], sort=True)
        da.align([a], sort=True)
    elif o == "align_inner_sort":
        da.align([a, b], join="inner", sort=True)
    elif o == "stack_align_sort":
        da.stack([a, b], axis="k", align=True, sort=True)
    elif o == "concatenate_axis_metadata":
        # the joined axes carry different axis-level metadata: neither operand's axis may gain or lose an entry
        b2 = b.copy()
        b2.axes["x"].attrs["only_in_second"] = 1
        b2.axes["y"].attrs["only_in_second_y"] = [2]
        snap = deep_snapshot(b2)
        da.concatenate([a, b2], axis="x")
        da.concatenate([a, b2, a], axis="y", align=True)
        da.stack([a, b2], axis="k", align=True)
        if deep_snapshot(b2) != snap:
            raise AssertionError("concatenate / stack changed the second operand")
    elif o == "ds_reduce_axis":
        c = a.sum(axis="y")
        c.attrs.update(A.attrs_enc(5))
        ds = _ds_of(a, a.copy() * 2)
        ds["c"] = c                          # lacks y: passed through by reductions along y
        snap, csnap = deep_snapshot(ds), deep_snapshot(c)
        ds.reduce_axis(np.mean, axis="y")
        ds.reduce_axis(np.take, indices=[0], axis="y", keepdims=True)
        ds.reduce_axis(np.sum, axis="x", keepattrs=True)
        if deep_snapshot(ds) != snap or deep_snapshot(c) != csnap:
            raise AssertionError("Dataset.reduce_axis changed the Dataset it was applied to (or the array a variable was built from)")
    elif o == "concatenate_align":
        da.concatenate([a, b], axis="x", align=True)
    elif o == "broadcast_arrays":
        da.broadcast_arrays(a, a.ix[:, 0])
    elif o == "to_json":
        a.to_json()
        A.DimArray.from_json(a.to_json())
    elif o == "to_json_nonjson_metadata":
        import warnings
        c = a.copy()
        c.attrs["arr"] = np.arange(3)
        c.attrs["npint"] = np.int64(3)
        keys = sorted(c.attrs)
        with warnings.catch_warnings():
            warnings.simplefilter("ignore")
            c.to_json()
            c.to_jsondict() if hasattr(c, "to_jsondict") else None
        if sorted(c.attrs) != keys or c.attrs["npint"] != 3 or c.attrs["arr"].tolist() != [0, 1, 2]:
            raise AssertionError("to_json changed the metadata of the array it serialises: %s -> %s" % (keys, sorted(c.attrs)))
    elif o == "to_dataset":
        a.to_dataset(axis="y") if hasattr(a, "to_dataset") else None
    elif o == "percentile":
        from dimarray.lib import percentile
        percentile(a, [50], axis="x")
    elif o == "percentile_all_axes":
        # the library's percentile function along every axis, by name and by position, one and several percentiles
        # (dimarray.lib.stats.quantile is neither exported nor documented: not a public operation, see DESIGN 11.6d)
        from dimarray.lib import percentile
        af = a.copy()
        af.axes["x"][:] = [30.5, 10.5, 20.5]
        for ax in ("x", "y", 0, 1):
            percentile(a, [25, 75], axis=ax)
            percentile(a, 50, axis=ax)
            r = percentile(af, [25, 75], axis=ax)
            if af.axes["x"].values.tolist() != [30.5, 10.5, 20.5]:
                raise AssertionError("percentile(axis=%r) changed the labels of its operand's axis x" % (ax,))
            if r.axes[0].values.tolist() != [25, 75]:
                raise AssertionError("percentile(axis=%r): the percentile axis reads %s" % (ax, r.axes[0].values.tolist()))
    elif o == "argmax":
        a.argmax(axis="x")
        a.argmin()
    elif o == "interp_like":
        a.interp_like(b)
    elif o == "dataset_construct":
        ds = A.Dataset(a=a, b=a * 2)
        return [ds]
    elif o == "dataset_construct_misaligned":
        A.Dataset(a=a, b=b)
    elif o.startswith("ds_"):
        a2 = a.copy()
        ds = _ds_of(a, a2 * 2)
        ds2 = _ds_of(a * 3, a2 * 4)
        watch = [ds, ds2]
        dsnap = [deep_snapshot(ds), deep_snapshot(ds2)]
        if o == "ds_take":
            ds.take(indices={"x": [10, 30]})
        elif o == "ds_mean":
            ds.mean(axis="x")
        elif o == "ds_take_axis":
            ds.take_axis([20, 30], axis="x")
        elif o == "ds_sort_axis":
            ds.sort_axis(axis="x")
        elif o == "ds_reindex_axis":
            ds.reindex_axis([10, 20, 40], axis="x")
            ds.reindex_axis([30, 10, 15], axis="x")        # as many labels as the axis, found at positions 0..n-1, one of them missing
            ds.reindex_axis([35, 10, 20], axis="x")
        elif o == "ds_interp_axis":
            ds.interp_axis([15., 25.], axis="x")
        elif o == "ds_add":
            ds + ds2
        elif o == "ds_set_axis_copy":
            ds.set_axis([1, 2, 3], axis="x", inplace=False)
        elif o == "ds_rename_axes_copy":
            ds.rename_axes({"x": "xx"}, inplace=False)
        elif o == "ds_rename_keys_copy":
            ds.rename_keys({"a": "aa"}, inplace=False)
        elif o == "ds_copy_then_mutate":
            c = ds.copy()
            c.axes["x"][0] = 99
            c.axes["y"].name = "yy"        # (Dataset.copy() is not promised to deep-copy values or metadata values)
        elif o == "ds_stack":
            da.stack_ds([ds, ds2], axis="k")
        elif o == "ds_concatenate":
            da.concatenate_ds([ds, ds2], axis="x")
        elif o == "ds_copy_then_relabel_rename":
            c = ds.copy()
            c.set_axis([1, 2, 3], axis="x")
            c.rename_axes({"y": "yy"})
            c2 = ds.rename_keys({"a": "aa"}, inplace=False)
            c2.axes["x"][0] = 55
        if o != "ds_copy_then_mutate" and [deep_snapshot(ds), deep_snapshot(ds2)] != dsnap:
            raise AssertionError("%s changed the Dataset it was applied to (labels, names, values or metadata of the operand Dataset)" % o)
        return watch
    elif o in ("reshape_indexed_group", "flatten_indexed_group"):
        # an array whose axis is the plain (sampled) remainder of a grouped axis - its name contains a comma
        c = a.flatten(("x", "y")).take([0, 2, 3, 5], axis=0, indexing="position")
        snap = deep_snapshot(c)
        if o == "reshape_indexed_group":
            c.newaxis("n").reshape("n", "x,y")
            c.reshape("x,y", "n")
        else:
            c.newaxis("n").flatten()
        if deep_snapshot(c) != snap:
            raise AssertionError("%s changed its operand: dims %s" % (o, c.dims))
    elif o == "reshape_regroup":
        g = a.newaxis("n").flatten(("n", "x"))
        snap = deep_snapshot(g)
        g.reshape("y", "x,n")
        g.reshape("n", "x", "y")
        if deep_snapshot(g) != snap:
            raise AssertionError("reshape changed its grouped operand: dims %s" % (g.dims,))
    elif o == "unflatten_partial":
        g = a.newaxis("n").flatten(("n", "x"))
        snap = deep_snapshot(g)
        g.unflatten()
        g.unflatten(axis=0)
        if deep_snapshot(g) != snap:
            raise AssertionError("unflatten changed its grouped operand: dims %s" % (g.dims,))
    elif o == "copy_then_set_values":
        c = a.copy()
        c.values[0, 0] = -5
        c[10] = -6
    elif o == "copy_then_relabel":
        c = a.copy()
        c.axes["x"][0] = 77
        c.y = [8., 9.]
    elif o == "copy_then_rename":
        c = a.copy()
        c.axes["x"].name = "xx"
        c.dims = ("p", "q")
    elif o == "copy_then_mutate_nested_attrs":
        src = a.copy()
        src.attrs["nested"] = {"steps": [1, 2], "grid": [[0, 1], [2, 3]]}
        for make in (lambda x: x.copy(), lambda x: x.put(10, 0., inplace=False), lambda x: x.set_axis([1, 2, 3], axis="x", inplace=False)):
            snap = deep_snapshot(src)
            c = make(src)
            c.attrs["nested"]["steps"].append(3)
            c.attrs["nested"]["grid"][0][0] = 9
            if deep_snapshot(src) != snap:
                raise AssertionError("a change inside a nested metadata value of the copy shows through in the original")
            csnap = deep_snapshot(c)
            src.attrs["nested"]["grid"][1].append(7)
            if deep_snapshot(c) != csnap:
                raise AssertionError("a change inside a nested metadata value of the original shows through in the copy")
            src.attrs["nested"]["grid"][1].pop()
    elif o == "copy_then_mutate_attrs":
        c = a.copy()
        c.attrs["mut"].append(1)
        c.attrs["tag"] = "zz"
        c.axes["x"].attrs["mut"][0] = 4
    elif o == "mutate_original_after_copy":
        src = a.copy()
        c = src.copy()
        snap = deep_snapshot(c)
        src.values[0, 0] = -5
        src.axes["x"][0] = 77
        src.axes["y"].name = "yy"
        src.attrs["mut"].append(2)
        if deep_snapshot(c) != snap:
            raise AssertionError("the copy changed when the original was modified")
    else:
        raise ValueError(o)
    return []


def _replay_sweep(scn):
    o, cfg = scn["in"]["opclass"], scn["in"]["config"]
    a = c16._arr()                     # x labels [30, 10, 20] are unsorted; metadata holds a list
    b = c16._arr()
    b.axes["x"][:] = [20, 40, 10]
    b.attrs.clear()
    b.attrs.update(A.attrs_enc(8))
    live = {"a": a, "b": b}
    if cfg == "siblings":
        live["a.T"] = a.T                   # shares Axis objects and the buffer with a
        live["a.squeezed"] = a.ix[:1].squeeze()
        live["a.newaxis"] = a.newaxis("n")
    before = {k: deep_snapshot(v) for k, v in live.items()}
    what = None
    old = np.seterr(all="ignore")
    try:
        try:
            if o in c16_classes():
                c16._run_class(o, a)
            else:
                for k, extra in enumerate(_more(o, a, b)):
                    pass
        except AssertionError as e:
            what = str(e)
        except Exception as e:  # noqa
            what = "operation class %s raised %s: %s" % (o, type(e).__name__, str(e)[:200])
    finally:
        np.seterr(**old)
    if what is None:
        for k, v in live.items():
            if deep_snapshot(v) != before[k]:
                what = "%s changed its operand (or a live sibling): %s differs after the call" % (o, k)
                break
    viol = [dict(what=what, sig="operand_watch/%s/%s" % (o, cfg), variant=cfg)] if what else []
    return dict(violations=viol, calls=1)


_C16 = None


def c16_classes():
    global _C16
    if _C16 is None:
        import re
        import os
        src = open(os.path.join(os.path.dirname(os.path.dirname(os.path.dirname(os.path.abspath(__file__)))), "spec", "MC_C15.tla")).read()
        block = src[src.index("ArrayOps =="):src.index("MoreOps ==")]
        _C16 = set(re.findall(r'"(\w+)"', block))
    return _C16


def replay(scn):
    if scn["op"] == "operand_watch":
        return _replay_sweep(scn)
    r = c05._replay_path(scn)
    # C15 owns the operand / bystander clauses; the other clauses belong to C05
    r["violations"] = [v for v in r["violations"] if v["sig"].endswith("operand-changed") or "history" in v["sig"] or True]
    return r
