"""C03 - assignment writes exactly the addressed cells."""
import numpy as np

from .. import absarr as A
from ..indexing import index_tuple

PROP = "C03"
RULE = ("every (array, index, rhs shape/kind, inplace, cast) scenario enumerated by TLC from spec/MC_C03.tla, replayed through "
        "a[idx]=v / put / .ix / .iloc / .loc / a.values=v; distinct = scenario lines")
ASSUMPTIONS = ["list indices have no repeats when the right-hand side is an array",
               "cast=False only for same-kind and float<-int assignments",
               "a failed in-place cast=True assignment may have widened the dtype already (cell values, labels and metadata must be unchanged)"]

FLOORS = {"fam=forms": (1000, 1000), "fam=dtypes": (100, 100), "fam=mask": (500, 500), "fam=values": (40, 40),
          "rhs=scalar": (500, 500), "rhs=full": (500, 500), "rhs=bcast": (200, 200), "inplace=False": (500, 500),
          "cast=True": (100, 100), "expect=IndexError": (50, 50), "mode=position": (500, 500), "pair": (16, 16),
          "fam=points": (1000, 1000), "points/cast": (200, 200), "points/rhs=array": (100, 100), "points/slice-dim": (100, 100),
          "points/mask": (100, 100), "points/3d": (100, 100)}


def tlc_jobs(tier, seed):
    consts = dict(U={2, 4, 6}, Full2D=(tier != "quick"), Emit=True, PtLens=({2} if tier == "quick" else {2, 3}))
    return [dict(tag=tier, module="MC_C03",
                 cfg=dict(constants=consts, invariants=["Frame", "ReadBack", "ErrIffReadErr", "PointsFrame", "PointsReadBack", "PointsArr", "PointsErr"]),
                 run=dict(timeout=3000))]


def _rhs_class(i):
    sh = i["rhs"]["shape"]
    if sh == []:
        return "scalar"
    if i["fam"] in ("mask", "points"):
        return "full"
    return "full" if 1 not in sh and len(sh) == sum(1 for ix in i["idxs"] if ix["k"] != "sc") else "bcast"


def classify(scn):
    i = scn["in"]
    out = ["fam=" + i["fam"], "rhs=" + _rhs_class(i), "inplace=%s" % i["inplace"], "cast=%s" % i["cast"], "mode=" + i["mode"],
           "expect=" + ("ok" if scn["out"]["r"]["ok"] else scn["out"]["r"]["err"])]
    if i["fam"] == "dtypes" and i["cast"]:
        out.append("pair/%s<-%s" % (i["a"]["dtype"], i["rhs"]["kind"]))
    if i["fam"] == "points":
        if i["cast"]:
            out.append("points/cast")
        if i["rhs"]["shape"]:
            out.append("points/rhs=array")
        if any(ix["k"] == "all" for ix in i["idxs"]):
            out.append("points/slice-dim")
        if any(ix["k"] == "mk" for ix in i["idxs"]):
            out.append("points/mask")
        if len(i["idxs"]) == 3:
            out.append("points/3d")
    return out


def signature(scn, spelling, kind):
    i = scn["in"]
    idx = ",".join(ix["k"] + (":empty" if ix["k"] == "li" and not ix["l"] else "") for ix in i["idxs"])
    return "put/%s/%s/kind=%s/%s<-%s/idx=%s/rhs=%s/inplace=%s/cast=%s/expect=%s" % (
        i["fam"], spelling, kind, i["a"]["dtype"], i["rhs"]["kind"], idx or "mask", _rhs_class(i), i["inplace"], i["cast"],
        "ok" if scn["out"]["r"]["ok"] else scn["out"]["r"]["err"])


ZERO = {"f": 0.0, "i": 0, "b": False, "O": ""}


def _conc_rhs(rhs, zero=False):
    vals = [(ZERO[rhs["kind"]] if zero else A.cell_enc(c, rhs["kind"])) for c in rhs["cells"]]
    if rhs["shape"] == []:
        return vals[0]
    dt = {"f": float, "i": int, "b": bool, "O": object}[rhs["kind"]]
    return np.array(vals, dtype=dt).reshape(rhs["shape"])


def _eq(x, y):
    if isinstance(x, bool) != isinstance(y, bool):
        return False
    if isinstance(x, float) and x != x:
        return isinstance(y, float) and y != y
    return type(x) is type(y) and x == y or (not isinstance(x, str) and not isinstance(y, str) and x == y)


def _nodtype(snap, cast):
    """a failed cast=True assignment may already have widened the dtype (values equal): the property does not forbid that"""
    return (snap[:2] + snap[3:]) if cast else snap


def _spellings(i):
    fam, mode, ip, cast = i["fam"], i["mode"], i["inplace"], i["cast"]
    if fam == "values":
        return ["values="]
    if fam == "mask":
        sp = ["put_mask", "put_mask_dimarray"]
        if ip and not cast:
            sp += ["setitem_mask", "setitem_mask_dimarray"]
        return sp
    if fam == "points":
        # pointwise (NumPy-style) assignment: put(..., broadcast=True).  (The 'indexing.broadcast' option is dead in the
        # pinned code - the class attribute _broadcast=False shadows it - so there is no option spelling.)
        return ["putb", "putb_dict"] if mode == "label" else ["putb_position"]
    nonall = [k for k, ix in enumerate(i["idxs"]) if ix["k"] != "all"]
    if mode == "label":
        sp = ["put", "put_dict"]
        if ip and not cast:
            sp += ["setitem", "loc="]
        if len(nonall) == 1:
            sp += ["put_negaxis", "put_dict_negpos"]        # the dimension given by its negative position (axis=, dict key)
    else:
        sp = ["put_position"]
        if ip and not cast:
            sp += ["ix=", "iloc="]
        if len(nonall) == 1:
            sp += ["put_negaxis"]
    return sp


def _do(a, sp, i, tup, rhs):
    kw = dict(cast=i["cast"], inplace=i["inplace"])
    dims = i["a"]["dims"]
    if sp == "values=":
        a.values = rhs
        return None
    if sp.startswith("put_mask") or sp.startswith("setitem_mask"):
        m = np.array(i["mask"], dtype=bool).reshape(a.shape)
        if sp.endswith("dimarray"):
            m = A.DimArray(m, axes=[ax.copy() for ax in a.axes])
        if sp.startswith("put"):
            return a.put(m, rhs, **kw)
        a[m] = rhs
        return None
    if sp == "putb":
        return a.put(tup, rhs, broadcast=True, **kw)
    if sp == "putb_dict":
        d = {dims[k]: tup[k] for k, ix in enumerate(i["idxs"]) if ix["k"] != "all"}
        return a.put(d, rhs, broadcast=True, **kw)
    if sp == "putb_position":
        return a.put(tup, rhs, indexing="position", broadcast=True, **kw)
    if sp == "put":
        return a.put(tup, rhs, **kw)
    if sp == "put_dict":
        d = {dims[k]: tup[k] for k, ix in enumerate(i["idxs"]) if ix["k"] != "all"}
        return a.put(d, rhs, **kw)
    if sp == "put_position":
        return a.put(tup, rhs, indexing="position", **kw)
    if sp in ("put_negaxis", "put_dict_negpos"):
        k = [q for q, ix in enumerate(i["idxs"]) if ix["k"] != "all"][0]
        if sp == "put_negaxis":
            return a.put(tup[k], rhs, axis=k - a.ndim, indexing=i["mode"], **kw)
        return a.put({k - a.ndim: tup[k]}, rhs, **kw)
    t = tup if len(tup) != 1 else tup[0]
    if sp == "setitem":
        a[t] = rhs
    elif sp == "loc=":
        a.loc[t] = rhs
    elif sp == "ix=":
        a.ix[t] = rhs
    elif sp == "iloc=":
        a.iloc[t] = rhs
    else:
        raise ValueError(sp)
    return None


def _check_pointwise_read(res, tup, i, v, a_abs, codec, kind):
    try:
        rb = res.take(tup, indexing=i["mode"], broadcast=True)
    except Exception as ex:  # noqa
        return "pointwise read raised %s: %s" % (type(ex).__name__, str(ex)[:200])
    if not isinstance(rb, A.DimArray):
        return "pointwise read returned %s" % type(rb).__name__
    names = a_abs["dims"]
    exp_dims = tuple(",".join(names[d - 1] for d in sd) for sd in v["srcdims"])
    if tuple(rb.dims) != exp_dims:
        return "pointwise read: dims expected %s got %s" % (exp_dims, tuple(rb.dims))
    for j, (sd, labs) in enumerate(zip(v["srcdims"], v["labs"])):
        act = rb.axes[j].values.tolist()
        if len(sd) == 1:
            expl = [codec.enc(t[0], kind) for t in labs]
        else:
            expl = [tuple(codec.enc(h, kind) for h in t) for t in labs]
            act = [tuple(x) if isinstance(x, (tuple, list)) else x for x in act]
        if len(act) != len(expl) or any(x != y for x, y in zip(act, expl)):
            return "pointwise read: labels of %r expected %s got %s" % (exp_dims[j], expl, act)
    shape = tuple(len(l) for l in v["labs"])
    if tuple(rb.shape) != shape:
        return "pointwise read: shape expected %s got %s" % (shape, tuple(rb.shape))
    expv = [A.cell_enc(c, i["rhs"]["kind"]) if c > 900 else A.cell_enc(c, a_abs["dtype"]) for c in v["cells"]]
    actv = np.ascontiguousarray(rb.values).ravel().tolist()
    if len(expv) != len(actv) or not all(_eq(x, y) for x, y in zip(expv, actv)):
        return "pointwise read: cells expected %s got %s" % (expv, actv)
    if dict(rb.attrs) != dict(res.attrs):
        return "pointwise read: attrs expected %s got %s" % (dict(res.attrs), dict(rb.attrs))
    return None


def replay(scn):
    i = scn["in"]
    a_abs = i["a"]
    exp = scn["out"]
    viol = []
    calls = 0
    nd = len(a_abs["dims"])
    kind_variants = [("i", 0)]
    if i["fam"] == "forms" and i["mode"] == "label":
        kind_variants = [("i", 0), ("f", 0), ("s", 0), ("i", -4), ("u", 0), ("f", 2000000)]     # + unsigned labels, large floats
    if i["fam"] == "points" and i["mode"] == "label":
        kind_variants = [("i", 0), ("s", 0)]
    for vi, (kind, off) in enumerate(kind_variants):
        kinds = [kind] * nd
        codec = A.LabelCodec(offset=off)
        kind = kind + ("@%d" % off if off else "")
        extra_sp = (["zero:" + _spellings(i)[0]] if vi == 0 and i["fam"] in ("forms", "dtypes", "mask") else [])
        if vi == 0 and i["rhs"]["shape"] and i["fam"] in ("forms", "points"):
            extra_sp.append("darhs:" + _spellings(i)[0])          # the right-hand side given as a DimArray (same shape, singleton axes included)
        if vi == 0 and i["cast"] and a_abs["dtype"] == "i" and i["rhs"]["kind"] == "f":
            extra_sp.append("f32:" + _spellings(i)[0])            # a float32 right-hand side into integers beyond 2**24: only the dtype kind may change
        for si, sp in enumerate(_spellings(i) + extra_sp):
            zero = sp.startswith("zero:")        # falsy assigned values (0, 0.0, False, '')
            darhs = sp.startswith("darhs:")
            f32 = sp.startswith("f32:")
            if zero or darhs or f32:
                sp = sp.split(":", 1)[1]
            tup = index_tuple(i["idxs"], kinds, codec, i["mode"], (si + vi) % 2) if i["fam"] not in ("mask",) else None
            rhs = _conc_rhs(i["rhs"], zero)
            if darhs:
                rhs = A.DimArray(rhs)
            if f32:
                rhs = np.float32(rhs) if np.ndim(rhs) == 0 else np.asarray(rhs, dtype=np.float32)
            rhs_before = repr(rhs)
            a = A.gamma(a_abs, codec, kinds)
            BIG = 2 ** 24 if f32 else 0
            if f32:
                a.values[...] += BIG
            before = A.snapshot(a)
            calls += 1
            try:
                ret = _do(a, sp, i, tup, rhs)
                err = None
            except Exception as e:  # noqa
                ret, err = None, e
            what = None
            r = exp["r"]
            if not r["ok"]:
                if err is None:
                    what = "expected %s, assignment succeeded" % r["err"]
                elif not isinstance(err, IndexError):
                    what = "expected %s, got %s: %s" % (r["err"], type(err).__name__, str(err)[:200])
                elif _nodtype(A.snapshot(a), i["cast"]) != _nodtype(before, i["cast"]):
                    what = "array changed by a failed assignment"
            elif err is not None:
                what = "expected success, got %s: %s" % (type(err).__name__, str(err)[:200])
            else:
                if i["inplace"]:
                    res = a
                    if ret is not None and sp != "values=":
                        what = "in-place assignment returned %s" % type(ret).__name__
                else:
                    res = ret
                    if not isinstance(res, A.DimArray):
                        what = "inplace=False returned %s" % type(res).__name__
                    elif A.snapshot(a) != before:
                        what = "original modified although inplace=False"
                if what is None and repr(rhs) != rhs_before:
                    what = "right-hand side modified"
                if what is None:
                    try:
                        pa = A.project_axes(res, codec)
                        e = dict(r["val"], kinds=kinds)
                        e.pop("cells")
                        what = A.compare(e, pa, dtype_any=exp["dtypes"]) or None
                    except A.Unprojectable as ex:
                        what = "result not projectable: %s" % ex
                if what is None:
                    expv = [(ZERO[i["rhs"]["kind"]] if zero else A.cell_enc(c, i["rhs"]["kind"])) if c > 900 else (A.cell_enc(c, a_abs["dtype"]) + BIG if BIG else A.cell_enc(c, a_abs["dtype"])) for c in r["val"]["cells"]]
                    actv = np.ascontiguousarray(res.values).ravel().tolist()
                    if len(expv) != len(actv) or not all(_eq(x, y) for x, y in zip(expv, actv)):
                        what = "cells: expected %s got %s" % (expv, actv)
                if what is None and exp["readback"]["ok"] and i["fam"] == "forms":
                    try:
                        rb = res.take(tup, indexing=i["mode"])
                        expv = [(ZERO[i["rhs"]["kind"]] if zero else A.cell_enc(c, i["rhs"]["kind"])) if c > 900 else A.cell_enc(c, a_abs["dtype"]) for c in exp["readback"]["val"]["cells"]]
                        actv = np.asarray(rb.values if isinstance(rb, A.DimArray) else rb).ravel().tolist()
                        if len(expv) != len(actv) or not all(_eq(x, y) for x, y in zip(expv, actv)):
                            what = "read-back: expected %s got %s" % (expv, actv)
                    except Exception as ex:  # noqa
                        what = "read-back raised %s: %s" % (type(ex).__name__, str(ex)[:200])
            if what is None and i["fam"] == "points" and err is None and exp["pts"]["ok"]:
                try:
                    rb = res.take(tup, indexing=i["mode"], broadcast=True)
                    expv = [A.cell_enc(c, i["rhs"]["kind"]) if c > 900 else A.cell_enc(c, a_abs["dtype"]) for c in exp["pts"]["val"]]
                    actv = np.asarray(rb.values if isinstance(rb, A.DimArray) else rb).ravel().tolist()
                    if len(expv) != len(actv) or not all(_eq(x, y) for x, y in zip(expv, actv)):
                        what = "pointwise read-back: expected %s got %s" % (expv, actv)
                except Exception as ex:  # noqa
                    what = "pointwise read-back raised %s: %s" % (type(ex).__name__, str(ex)[:200])
            obs = False
            if what is None and i["fam"] == "points" and err is None and exp.get("pta", {}).get("ok"):
                # the whole pointwise read, axes included (spec/Arrays.tla TakePointsArr).  broadcast=True reads are outside the
                # statement of C03 (and of C01, which is about orthogonal indexing): differences are reported as observations.
                what = _check_pointwise_read(res, tup, i, exp["pta"]["val"], a_abs, codec, kinds[0][0])
                obs = what is not None
            if what:
                viol.append(dict(observation=obs, what=what, sig=signature(scn, sp + ("/zero" if zero else "") + ("/darhs" if darhs else "") + ("/f32" if f32 else ""), kind),
                                 variant="kind=%s spelling=%s zero=%s" % (kind, sp, zero)))
    return dict(violations=viol, calls=calls)



def post(tier, seed, ctx):
    """code -> spec: randomly driven calls (up to 4-d, axes up to 5 labels) recorded and validated by TLC against spec/TraceOps.tla"""
    from .. import trace_ops
    trace_ops.validate(PROP, tier, seed, ctx, ['put'])
