"""C11 - flatten, unflatten and reshape group dimensions losslessly."""
import numpy as np

from .. import absarr as A
from dimarray.core.axes import MultiAxis

PROP = "C11"
RULE = ("every ordered subset of dimensions x insert position x container kind for flatten, and every reshape target (regrouping, "
        "reordering, adding / dropping singletons) of the 1-3-d (thorough: 1-4-d) template arrays, enumerated by TLC from spec/MC_C11.tla; "
        "result, unflatten(result) and label coordinates compared")
ASSUMPTIONS = ["grouped labels are compared for member axes of one kind; with mixed kinds only members, cells and round trips are compared"]

FLOORS = {"op=flatten": (100, 100), "op=reshape": (50, 50), "subset=contiguous": (30, 30), "subset=noncontiguous": (5, 5),
          "subset=reordered": (20, 20), "subset=all": (10, 10), "form=set": (10, 10), "form=list": (30, 30), "insert=given": (50, 50),
          "reshape=regroup": (20, 20), "reshape=add": (20, 20), "reshape=drop": (0, 5), "two-groups": (100, 100), "tuple-ops": (50, 50)}

KINDMAPS = [("i", {"x": "i", "y": "i", "z": "i", "w": "i", "r": "i", "s": "i"}), ("u", {"x": "u", "y": "u", "z": "u", "w": "u", "r": "u", "s": "u"}), ("s", {"x": "s", "y": "s", "z": "s", "w": "s", "r": "s", "s": "s"}),
            ("mixed", {"x": "i", "y": "s", "z": "f", "w": "i", "r": "s", "s": "f"})]


def tlc_jobs(tier, seed):
    return [dict(tag=tier, module="MC_C11",
                 cfg=dict(constants=dict(Big=(tier != "quick"), Emit=True), invariants=["LosslessGrouping", "RoundTrip", "Naming"]),
                 run=dict(timeout=3000))]


def _subset_class(i):
    S = i["S"]
    n = len(i["a"]["dims"])
    if len(S) == n and S == sorted(S):
        return "all"
    if S != sorted(S):
        return "reordered"
    if S == list(range(S[0], S[0] + len(S))):
        return "contiguous"
    return "noncontiguous"


def classify(scn):
    i = scn["in"]
    out = ["op=" + i["op"]]
    if i["op"] == "flatten":
        out += ["subset=" + _subset_class(i), "form=" + i["form"]]
        if i["insert"]:
            out.append("insert=given")
        elif len(i["S"]) >= 2 and i["form"] != "set":
            out.append("tuple-ops")
    else:
        g = i["groups"]
        if any(len(x) > 1 for x in g):
            out.append("reshape=regroup")
        if sum(1 for x in g if len(x) > 1) >= 2:
            out.append("two-groups")
        if ["n"] in g:
            out.append("reshape=add")
        flat = [d for x in g for d in x]
        if any(d not in flat for d in i["a"]["dims"]):
            out.append("reshape=drop")
    return out


def signature(scn, variant):
    i = scn["in"]
    if i["op"] == "flatten":
        return "flatten/%s/ndim=%d/S=%s/%s/form=%s/insert=%s" % (variant, len(i["a"]["dims"]), "".join(map(str, i["S"])), _subset_class(i),
                                                                i["form"], i["insert"][0] if i["insert"] else "default")
    return "reshape/%s/ndim=%d/groups=%s%s" % (variant, len(i["a"]["dims"]), "|".join(",".join(g) for g in i["groups"]),
                                               "/pregrouped=" + ",".join(str(k) for k in i["pre"]) if i.get("pre") else "")


def project_grouped(obj, codec):
    if not isinstance(obj, A.DimArray):
        raise A.Unprojectable("result is %s" % type(obj).__name__)
    wf = A.wellformed_defects(obj)
    if wf:
        raise A.Unprojectable("ill-formed: " + "; ".join(wf))
    dims, kinds, labs, members = [], [], [], []
    for ax in obj.axes:
        dims.append(ax.name)
        if isinstance(ax, MultiAxis):
            kinds.append("t")
            mem = []
            for m in ax.axes:
                k, hs = codec.dec_axis(m.values)
                mem.append(dict(name=m.name, kind=k, labs=hs))
            members.append(mem)
            tl = []
            for t in ax.values.tolist():
                if len(mem) == 1 and not isinstance(t, tuple):
                    t = (t,)        # a group of one dimension may carry the member's labels as they are
                if not isinstance(t, tuple) or len(t) != len(mem):
                    raise A.Unprojectable("grouped label %r" % (t,))
                tl.append(list(t))
            labs.append(tl)
        else:
            k, hs = codec.dec_axis(ax.values)
            kinds.append(k)
            labs.append(hs)
            members.append([])
    cells = [A.cell_dec(x) for x in obj.values.ravel().tolist()]
    return dict(dims=dims, kinds=kinds, labs=labs, members=members, cells=cells, attrs=A.attrs_dec(obj.attrs),
                dtype=A.dtype_kind(obj.values.dtype))


def _cmp(exp, act, codec, kmap, compare_grouped_labels):
    if exp["dims"] != act["dims"]:
        return "dims: expected %s got %s" % (exp["dims"], act["dims"])
    for d, (ek, ak, el, al, em, am) in enumerate(zip(exp["kinds"], act["kinds"], exp["labs"], act["labs"], exp["members"], act["members"])):
        name = exp["dims"][d]
        if (ek == "t") != (ak == "t"):
            return "axis %s: expected %s axis got %s" % (name, "a grouped" if ek == "t" else "a plain", ak)
        if ek == "t":
            if [m["name"] for m in em] != [m["name"] for m in am]:
                return "axis %s: member names expected %s got %s" % (name, [m["name"] for m in em], [m["name"] for m in am])
            if [m["labs"] for m in em] != [m["labs"] for m in am]:
                return "axis %s: member labels expected %s got %s" % (name, [m["labs"] for m in em], [m["labs"] for m in am])
            if len(el) != len(al):
                return "axis %s: expected %d grouped labels got %d" % (name, len(el), len(al))
            if compare_grouped_labels:
                # decode the components of the real tuples with the members' kinds
                dec = []
                for t in al:
                    try:
                        dec.append([codec.dec(x)[0] for x in t])
                    except A.Unprojectable as ex:
                        return "axis %s: grouped label %r: %s" % (name, t, ex)
                if dec != el:
                    return "axis %s: grouped labels expected %s got %s" % (name, el, dec)
        else:
            if el != al:
                return "axis %s: labels expected %s got %s" % (name, el, al)
    if exp["cells"] != act["cells"]:
        return "cells: expected %s got %s" % (exp["cells"], act["cells"])
    if exp["attrs"] != act["attrs"]:
        return "attrs: expected %s got %s" % (exp["attrs"], act["attrs"])
    return ""


def _dims_arg(i, a, form, byname):
    refs = [(a.dims[p - 1] if byname else p - 1) for p in i["S"]]
    if form == "tuple":
        return tuple(refs)
    if form == "list":
        return list(refs)
    return set(refs)


def replay(scn):
    i = scn["in"]
    exp = scn["out"]
    viol, calls = [], 0
    for kname, kmap in KINDMAPS:
        codec = A.LabelCodec()
        a_abs = i["a"]
        for byname in ((True, False) if i["op"] == "flatten" and i["form"] != "set" else (True,)):
            a = A.gamma(a_abs, codec, [kmap[d] for d in a_abs["dims"]])
            if i.get("pre"):
                a = a.flatten(tuple(a_abs["dims"][k - 1] for k in i["pre"]))      # the operand already carries a grouped axis
            before = A.snapshot(a)
            variant = "kinds=%s byname=%s" % (kname, byname)
            calls += 1
            what = None
            try:
                if i["op"] == "flatten":
                    kw = {}
                    if i["insert"]:
                        kw["insert"] = i["insert"][0]
                    if kname == "i":
                        # a sibling array first: same dimension names, sizes and end labels, other labels inside - nothing that is
                        # computed for it (grouped labels are built lazily) may be reused for this one
                        b = a.copy()
                        for bx in b.axes:
                            if bx.size >= 3:
                                bx[1] = bx.values[1] + 1 if (bx.values[1] + 1) not in bx.values.tolist() else bx.values[1] - 1
                        gb = b.flatten(_dims_arg(i, b, i["form"], byname), **kw)
                        [ax.values for ax in gb.axes]
                    res = a.flatten(_dims_arg(i, a, i["form"], byname), **kw)
                else:
                    names = [",".join(g) for g in i["groups"]]
                    res = a.reshape(names) if byname else a.reshape(*names)
            except RecursionError:
                what = "raised RecursionError"
            except Exception as e:  # noqa
                what = "raised %s: %s" % (type(e).__name__, str(e)[:200])
            if what is None and A.snapshot(a) != before:
                what = "operand modified"
            if what is None:
                try:
                    act = project_grouped(res, codec)
                    what = _cmp(exp["r"], act, codec, kmap, kname != "mixed") or None
                except A.Unprojectable as ex:
                    what = "result not projectable: %s" % ex
            if what is None:
                try:
                    back = res.unflatten()
                    actb = project_grouped(back, codec)
                    w = _cmp(exp["back"], actb, codec, kmap, True)
                    if w:
                        what = "unflatten(result): " + w
                except Exception as e:  # noqa
                    what = "unflatten(result) raised %s: %s" % (type(e).__name__, str(e)[:200])
            if what is None:
                # Unflatten(r, g) of the specification: one grouped axis expanded - given by position (0 included) or by name -, the
                # other grouped axes left as they are; expanding the rest afterwards gives the same array as unflatten()
                e = exp["r"]
                grouped = [k for k, kd in enumerate(e["kinds"]) if kd == "t"]
                if len(grouped) >= 2:
                    for g in grouped:
                        for ref in (g, e["dims"][g]):
                            calls += 1
                            try:
                                part = res.unflatten(ref)
                                wantd = e["dims"][:g] + e["dims"][g].split(",") + e["dims"][g + 1:]
                                if list(part.dims) != wantd:
                                    what = "unflatten(%r): dims expected %s got %s" % (ref, wantd, list(part.dims))
                                else:
                                    w = _cmp(exp["back"], project_grouped(part.unflatten(), codec), codec, kmap, True)
                                    if w:
                                        what = "unflatten(%r).unflatten(): %s" % (ref, w)
                            except Exception as ex:  # noqa
                                what = "unflatten(%r) raised %s: %s" % (ref, type(ex).__name__, str(ex)[:200])
                            if what:
                                break
                        if what:
                            break
            if what is None and i["op"] == "flatten":
                # the value at a grouped position equals the original value at that combination of labels: read the grouped
                # axis by position (list, slice, mask) and compare with the expected array sampled at those positions
                e = exp["r"]
                g = [k for k, kd in enumerate(e["kinds"]) if kd == "t"][0]
                n = len(e["labs"][g])
                ecells = np.array(e["cells"], dtype=object).reshape([len(l) for l in e["labs"]])
                for sel, pos in (("list", [n - 1, 0]), ("slice", list(range(1, n))), ("mask", [k for k in range(n) if k % 2 == 0])):
                    calls += 1
                    ix = pos if sel == "list" else (slice(1, None) if sel == "slice" else np.array([k % 2 == 0 for k in range(n)]))
                    try:
                        sub = res.take(ix, axis=e["dims"][g], indexing="position")
                        want_cells = np.take(ecells, pos, axis=g).ravel().tolist()
                        got_cells = [A.cell_dec(x) for x in sub.values.ravel().tolist()]
                        got_labs = [list(t) if isinstance(t, tuple) else [t] for t in sub.axes[g].values.tolist()]
                        want_labs = [e["labs"][g][k] for k in pos]
                        # (member axes of different kinds: NumPy stores the sampled tuples as strings; only the cells are compared)
                        dec = [[codec.dec(x)[0] for x in t] for t in got_labs] if kname != "mixed" else want_labs
                        if got_cells != want_cells:
                            what = "grouped axis read by position %s: cells expected %s got %s" % (sel, want_cells[:8], got_cells[:8])
                        elif dec != want_labs:
                            what = "grouped axis read by position %s: grouped labels expected %s got %s" % (sel, want_labs[:6], dec[:6])
                    except Exception as ex:  # noqa
                        what = "grouped axis read by position %s raised %s: %s" % (sel, type(ex).__name__, str(ex)[:200])
                    if what:
                        variant += " read=" + sel
                        break
            if what is None and i["op"] == "flatten" and i["S"] == sorted(i["S"]) and len(i["S"]) < len(a_abs["dims"]) and i["form"] != "set":
                # flatten(<the dimensions to keep>, reverse=True) groups all the others: the same result as listing them (array order)
                keep = [p for p in range(1, len(a_abs["dims"]) + 1) if p not in i["S"]]
                refs = [(a.dims[p - 1] if byname else p - 1) for p in keep]
                if not byname and len(refs) > 1:
                    refs[-1] = a.dims[keep[-1] - 1]           # a mix of positions and names
                kw = {"insert": i["insert"][0]} if i["insert"] else {}
                calls += 1
                try:
                    r2 = a.flatten(tuple(refs) if i["form"] == "tuple" else list(refs), reverse=True, **kw)
                    w = _cmp(exp["r"], project_grouped(r2, codec), codec, kmap, kname != "mixed")
                    if w:
                        what = "flatten(%r, reverse=True): %s" % (refs, w)
                except Exception as ex:  # noqa
                    what = "flatten(%r, reverse=True) raised %s: %s" % (refs, type(ex).__name__, str(ex)[:200])
            if what is None and i["op"] == "reshape":
                # transpose=False: allowed exactly when the target keeps the dimensions it shares with the array in the array's order
                flat = [d for g in i["groups"] for d in g]
                adims = [m for d in a.dims for m in d.split(",")]          # member order of the operand (it may carry a grouped axis already)
                shared_t = [d for d in flat if d in adims]
                shared_a = [d for d in adims if d in flat]
                names = [",".join(g) for g in i["groups"]]
                calls += 1
                try:
                    r2 = a.reshape(names, transpose=False)
                    if shared_t != shared_a:
                        what = "reshape(.., transpose=False) accepted a target that needs a transposition"
                    else:
                        w = _cmp(exp["r"], project_grouped(r2, codec), codec, kmap, kname != "mixed")
                        if w:
                            what = "reshape(.., transpose=False): " + w
                except ValueError as ex:
                    if shared_t == shared_a:
                        what = "reshape(%r, transpose=False) refused a target that needs no transposition: %s" % (names, str(ex)[:150])
                except Exception as ex:  # noqa
                    what = "reshape(.., transpose=False) raised %s: %s" % (type(ex).__name__, str(ex)[:200])
            if what is None and i["op"] == "flatten" and len(i["S"]) >= 2 and i["form"] != "set" and not i["insert"]:
                # "reducing over a tuple of dimensions equals reducing over the flattened group" - also for the operations that
                # depend on the order inside the group (arg-extrema, cumulative sums, differences)
                arg = _dims_arg(i, a, i["form"], byname)
                flat = a.flatten(arg, insert=0)
                for opname in TUPLE_OPS:
                    calls += 1
                    r1 = _try(lambda: getattr(a, opname)(axis=arg))
                    r2 = _try(lambda: getattr(flat, opname)(axis=0))
                    w = _same_any(r1, r2)
                    if w:
                        what = "%s(axis=%r) differs from %s on the flattened group: %s" % (opname, arg, opname, w)
                        variant += " op=" + opname
                        break
            if what:
                viol.append(dict(what=what, sig=signature(scn, "kinds=%s" % kname), variant=variant))
    return dict(violations=viol, calls=calls)


TUPLE_OPS = ["sum", "mean", "max", "argmax", "argmin", "cumsum", "cumprod", "diff"]


def _try(f):
    old = np.seterr(all="ignore")
    try:
        return f()
    except Exception as e:  # noqa
        return ("raised", type(e).__name__)
    finally:
        np.seterr(**old)


def _same_any(x, y):
    if isinstance(x, tuple) and x[:1] == ("raised",) or isinstance(y, tuple) and y[:1] == ("raised",):
        return "" if x == y else "%r vs %r" % (x, y)
    if isinstance(x, A.DimArray) != isinstance(y, A.DimArray):
        return "%s vs %s" % (type(x).__name__, type(y).__name__)
    if not isinstance(x, A.DimArray):
        return "" if (x == y or (x != x and y != y)) else "%r vs %r" % (x, y)
    if x.dims != y.dims:
        return "dims %s vs %s" % (x.dims, y.dims)
    for ax, bx in zip(x.axes, y.axes):
        if ax.values.tolist() != bx.values.tolist():
            return "labels of %s: %s vs %s" % (ax.name, ax.values.tolist()[:6], bx.values.tolist()[:6])
    u, v = x.values.ravel().tolist(), y.values.ravel().tolist()
    if len(u) != len(v) or any(not (p == q or (p != p and q != q)) for p, q in zip(u, v)):
        return "values %s vs %s" % (u[:8], v[:8])
    if dict(x.attrs) != dict(y.attrs):
        return "attrs %r vs %r" % (dict(x.attrs), dict(y.attrs))
    return ""
