"""C18 - interp_axis is per-fibre linear interpolation, exact at the nodes."""
import numpy as np

from .. import absarr as A

PROP = "C18"
RULE = ("every node sequence over the universe in any stored order x new coordinate vector over a half-unit grid (below / on / between / "
        "above the nodes, sorted or not) x fills x issorted x axis position in 1-3-d arrays, enumerated by TLC from spec/MC_C18.tla; the spec "
        "gives bracketing nodes and the exact rational weight per output cell; compared with dimarray and, in 1-d, with numpy.interp")
ASSUMPTIONS = ["data without NaN", "numeric labels"]

FLOORS = {"order=inc": (500, 500), "order=dec": (500, 500), "order=shuffled": (500, 500), "pt=below": (500, 500), "pt=node": (500, 500),
          "pt=between": (500, 500), "pt=above": (500, 500), "fills": (500, 500), "ndim=1": (500, 500), "ndim=2": (500, 500), "ndim=3": (100, 100),
          "issorted": (100, 100), "one-node": (100, 100), "interp_like": (20, 20), "dataset": (10, 10), "like-two-dims": (10, 10)}


def tlc_jobs(tier, seed):
    consts = dict(U={4, 8, 12}, Grid={2, 4, 6, 7, 8, 12, 14}, MaxNew=2, Emit=True)
    if tier != "quick":
        consts = dict(U={4, 8, 12, 16}, Grid={2, 4, 6, 7, 8, 12, 13, 16, 18}, MaxNew=2, Emit=True)
    return [dict(tag=tier, module="MC_C18", cfg=dict(constants=consts, invariants=["ExactAtNodes", "AxisIsNew", "OrderIndependent"]),
                 run=dict(timeout=3000))]


def _order(L):
    if len(L) < 2:
        return "short"
    return "inc" if L == sorted(L) else ("dec" if L == sorted(L, reverse=True) else "shuffled")


def classify(scn):
    if scn["op"] == "interp_like":
        return ["interp_like"] + (["like-two-dims"] if all(scn["in"]["new"]) else [])
    if scn["op"] == "interp_ds":
        return ["dataset"]
    i = scn["in"]
    L = i["a"]["labs"][i["d"] - 1]
    out = ["order=" + _order(L), "ndim=%d" % len(i["a"]["dims"])]
    for x in i["new"]:
        out.append("pt=" + ("below" if x < min(L) else "above" if x > max(L) else "node" if x in L else "between"))
    if i["fills"]:
        out.append("fills")
    if i["issorted"]:
        out.append("issorted")
    if len(L) == 1:
        out.append("one-node")
    return out


def signature(scn, variant):
    i = scn["in"]
    L = i["a"]["labs"][i["d"] - 1]
    pts = ",".join(sorted(set("below" if x < min(L) else "above" if x > max(L) else "node" if x in L else "between" for x in i["new"])))
    return "interp_axis/%s/ndim=%d/pos=%d/nodes=%d/order=%s/pts=%s/fills=%s/issorted=%s/dtype=%s" % (
        variant, len(i["a"]["dims"]), i["d"], len(L), _order(L), pts, i["fills"], i["issorted"], i["a"]["dtype"])


def _close(x, y):
    x, y = float(x), float(y)
    if x != x or y != y:
        return x != x and y != y
    return abs(x - y) <= 1e-12 * max(1.0, abs(x), abs(y))


def _val(c, dt, left, right):
    if not isinstance(c, dict):
        return A.cell_enc(c, dt)
    if c["k"] == "left":
        return left
    if c["k"] == "right":
        return right
    lo, hi = _val(c["lo"], dt, left, right), _val(c["hi"], dt, left, right)
    return lo + (c["num"] / c["den"]) * (hi - lo)


def _replay_like(scn):
    i = scn["in"]
    a_abs = i["a"]
    exp = scn["out"]
    tx, ty = i["new"]
    swap, extra = i["fills"], i["issorted"]
    viol, calls = [], 0
    vals = [_val(c, "f", np.nan, np.nan) for c in exp["cells"]]
    codec = A.LabelCodec(mixed=True)
    a = A.gamma(a_abs, codec, ["i", "f"])
    before = A.snapshot(a)
    axes = []
    if tx:
        axes.append(A.Axis(codec.enc_seq(tx, "f"), "x"))
    if ty:
        axes.append(A.Axis(codec.enc_seq(ty, "f"), "y"))
    if extra:
        axes.append(A.Axis([1, 2], "w"))
    if swap:
        axes = axes[::-1]
    for form in (0, 1):
        calls += 1
        what = None
        try:
            t = A.DimArray(np.zeros([ax.size for ax in axes]), axes=axes)
            res = a.interp_like(t if form == 0 else t.axes)
        except Exception as e:  # noqa
            what = "raised %s: %s" % (type(e).__name__, str(e)[:200])
        if what is None and A.snapshot(a) != before:
            what = "operand modified"
        if what is None:
            try:
                pa = A.project_axes(res, codec)
                if pa["dims"] != exp["dims"] or pa["labs"] != exp["labs"]:
                    what = "axes: expected %s %s got %s %s" % (exp["dims"], exp["labs"], pa["dims"], pa["labs"])
                elif pa["attrs"] != exp["attrs"]:
                    what = "attrs: expected %s got %s" % (exp["attrs"], pa["attrs"])
            except A.Unprojectable as ex:
                what = "result not projectable: %s" % ex
        if what is None:
            act = res.values.ravel().tolist()
            if len(act) != len(vals) or not all(_close(x, y) for x, y in zip(vals, act)):
                what = "values: expected %s got %s" % (vals, act)
        if what:
            viol.append(dict(what=what, sig="interp_like/form=%d/x=%d/y=%d/swap=%s/extra=%s" % (form, len(tx), len(ty), swap, extra),
                             variant="form=%d" % form))
    return dict(violations=viol, calls=calls)


def _replay_ds(scn):
    """Dataset.interp_axis / interp_like: variables having the axis equal the DimArray result, the others are unchanged, metadata kept"""
    i = scn["in"]
    exp = scn["out"]
    like, bypos = i["fills"], i["issorted"]
    codec = A.LabelCodec(mixed=True)
    a = A.gamma(i["a"], codec, ["i", "f"])
    ds = A.Dataset()
    ds["a"] = a
    ds["b"] = a.T * 2
    ds["c"] = a.take({"x": a.axes["x"].values[0]}) + 1
    for k in ds.keys():
        ds[k].attrs.update(A.attrs_enc(3))
    ds.attrs.update(A.attrs_enc(9))
    newx = codec.enc_seq(i["new"], "f")
    vals = [_val(c, "f", np.nan, np.nan) for c in exp["cells"]]
    from .c15 import deep_snapshot
    before = deep_snapshot(ds)
    what = None
    try:
        if like:
            res = ds.interp_like(A.DimArray(np.zeros(len(newx)), axes=[A.Axis(newx, "x")]))
        else:
            res = ds.interp_axis(newx, axis=(0 if bypos else "x"))
    except Exception as e:  # noqa
        what = "raised %s: %s" % (type(e).__name__, str(e)[:200])
    if what is None and deep_snapshot(ds) != before:
        what = "the operand Dataset was modified"
    if what is None:
        ra = res["a"]
        act = ra.values.ravel().tolist()
        pa = A.project_axes(ra, codec)
        if pa["dims"] != exp["dims"] or pa["labs"] != exp["labs"]:
            what = "variable a: axes expected %s %s got %s %s" % (exp["dims"], exp["labs"], pa["dims"], pa["labs"])
        elif len(act) != len(vals) or not all(_close(x, y) for x, y in zip(vals, act)):
            what = "variable a: values expected %s got %s" % (vals, act)
        elif not np.allclose(res["b"].values, (ra.values * 2).T, equal_nan=True):
            what = "variable b(y,x) differs from twice the transposed a"
        elif not np.array_equal(res["c"].values, ds["c"].values) or res["c"].dims != ds["c"].dims:
            what = "variable c (lacking x) changed"
        elif A.attrs_dec(res.attrs) != 9:
            what = "dataset metadata not carried over: %r" % (dict(res.attrs),)
        elif any(A.attrs_dec(res[k].attrs) != 3 for k in ("a", "b", "c")):
            what = "variable metadata not carried over: %r" % ({k: dict(res[k].attrs) for k in res.keys()},)
    viol = [dict(what=what, sig="interp_ds/like=%s/bypos=%s/npts=%d" % (like, bypos, len(i["new"])), variant="dataset")] if what else []
    return dict(violations=viol, calls=1)


def replay(scn):
    if scn["op"] == "interp_like":
        return _replay_like(scn)
    if scn["op"] == "interp_ds":
        return _replay_ds(scn)
    i = scn["in"]
    a_abs = i["a"]
    exp = scn["out"]
    viol, calls = [], 0
    d = i["d"] - 1
    dt = a_abs["dtype"]
    nan_cell = max(a_abs["cells"]) if dt == "f" and len(a_abs["cells"]) >= 2 else None

    def expected(left, right):
        vals = []
        for t in exp["cells"]:
            if t["k"] == "left":
                vals.append(left)
            elif t["k"] == "right":
                vals.append(right)
            else:
                lo, hi = A.cell_enc(t["lo"], dt), A.cell_enc(t["hi"], dt)
                vals.append(lo + (t["num"] / t["den"]) * (hi - lo))
        # variant "nanhi": the largest cell of the array holds NaN - a point exactly on a node reproduces that node's value whatever its
        # neighbours hold (weight 0 does not bring the neighbour's NaN in); between nodes NaN propagates
        vals_nan = []
        for t, v in zip(exp["cells"], vals):
            if t["k"] in ("left", "right") or nan_cell is None:
                vals_nan.append(v)
            elif t["num"] == 0:
                vals_nan.append(np.nan if t["lo"] == nan_cell else A.cell_enc(t["lo"], dt))
            elif t["num"] == t["den"]:
                vals_nan.append(np.nan if t["hi"] == nan_cell else A.cell_enc(t["hi"], dt))
            else:
                vals_nan.append(np.nan if nan_cell in (t["lo"], t["hi"]) else v)
        return vals, vals_nan
    # the fill values: ordinary numbers, falsy ones (0, 0.0) and a mix - a fill of 0 is a fill
    FILLS = {0: (-1.5, -2.5), 1: (0, 0.0), 2: (0.0, -2.5)}
    for kind in ("i", "f", "u"):
        codec = A.LabelCodec(mixed=True)
        kinds = ["i"] * len(a_abs["dims"])
        kinds[d] = kind
        for form in (0, 1, 2):
            left, right = FILLS[form] if i["fills"] else (np.nan, np.nan)
            vals, vals_nan = expected(left, right)
            a = A.gamma(a_abs, codec, kinds)
            before = A.snapshot(a)
            newx = codec.enc_seq(i["new"], "f")
            kw = {}
            if i["fills"]:
                kw.update(left=left, right=right)
            if i["issorted"]:
                kw["issorted"] = True
            ax = a_abs["dims"][d] if form == 0 else (d if form == 1 else d - a.ndim)
            calls += 1
            what = None
            if form != 1 and a.axes[d].size >= 3:
                # a preceding call on another grid with the same size, the same end labels and the same new coordinates:
                # nothing it computed may be reused for this one
                L = a.axes[d].values.astype(float)
                o = np.argsort(L)
                Ls = L[o].copy()
                Ls[1:-1] = Ls[1:-1] + 0.25 * (Ls[2:] - Ls[1:-1])
                L2 = np.empty_like(L)
                L2[o] = Ls
                b = a.copy()
                b.set_axis(L2, axis=d)
                try:
                    b.interp_axis(newx, axis=ax, **kw)
                    calls += 1
                except Exception:  # noqa
                    pass
            try:
                res = a.interp_axis(newx if form == 0 else list(newx), axis=ax, **kw)
            except Exception as e:  # noqa
                what = "raised %s: %s" % (type(e).__name__, str(e)[:200])
            if what is None and A.snapshot(a) != before:
                what = "operand modified"
            if what is None:
                try:
                    pa = A.project_axes(res, codec)
                    e = dict(exp, kinds=pa["kinds"])
                    e.pop("cells")
                    if len(pa["aattrs"]) == len(e["aattrs"]):       # metadata of the interpolated axis itself is not promised
                        e["aattrs"] = [pa["aattrs"][k] if k == d else v for k, v in enumerate(e["aattrs"])]
                    what = A.compare(e, pa, free_kinds=True, dtype_any=["f", "i"]) or None
                except A.Unprojectable as ex:
                    what = "result not projectable: %s" % ex
            if what is None:
                act = res.values.ravel().tolist()
                if len(act) != len(vals) or not all(_close(x, y) for x, y in zip(vals, act)):
                    what = "values: expected %s got %s" % (vals, act)
            if what is None and form == 0 and nan_cell is not None and not exp.get("err") and kind != "u":
                a2 = a.copy()
                for k, c in enumerate(a_abs["cells"]):
                    if c == nan_cell:
                        a2.values[np.unravel_index(k, a2.shape)] = np.nan
                calls += 1
                try:
                    r2 = a2.interp_axis(newx, axis=ax, **kw)
                    act2 = r2.values.ravel().tolist()
                    if len(act2) != len(vals_nan) or not all(_close(x, y) for x, y in zip(vals_nan, act2)):
                        what = "with NaN stored in one cell: values expected %s got %s" % (vals_nan, act2)
                except Exception as e:  # noqa
                    what = "with NaN stored in one cell: raised %s: %s" % (type(e).__name__, str(e)[:200])
            if what is None and a.ndim == 1:
                xs = a.axes[0].values.astype(float)
                o = np.argsort(xs)
                ref = np.interp(np.asarray(newx, dtype=float), xs[o], a.values[o].astype(float),
                                left=left if i["fills"] else np.nan, right=right if i["fills"] else np.nan)
                if not all(_close(x, y) for x, y in zip(ref.tolist(), res.values.tolist())):
                    what = "numpy.interp on the sorted fibre gives %s, got %s" % (ref.tolist(), res.values.tolist())
            if what:
                viol.append(dict(what=what, sig=signature(scn, "kind=%s/form=%d" % (kind, form)), variant="kind=%s form=%d" % (kind, form)))
    return dict(violations=viol, calls=calls)
