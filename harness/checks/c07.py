"""C07 - reindexing moves data together with its labels."""
import numpy as np

from .. import absarr as A

PROP = "C07"
RULE = ("every (axis, new labels, fill, raise_error, method) scenario enumerated by TLC from spec/MC_C07.tla (1-d, embedded at each "
        "axis of 2-3-d arrays, reindex_like templates), replayed with labels given as list / ndarray / Axis and kinds i, f, s, int<-float")
ASSUMPTIONS = ["source axes are non-empty with unique labels", "new labels are of a kind comparable with the axis"]

FLOORS = {"fam=1d": (5000, 5000), "fam=nd": (500, 500), "fam=like": (40, 40), "new=empty": (20, 20), "new=subset": (200, 200),
          "new=superset": (100, 100), "new=disjoint": (100, 100), "new=repeated": (200, 200), "new=permuted": (50, 50),
          "method=left": (500, 500), "method=right": (500, 500), "raise": (200, 200), "fill=number": (500, 500), "own": (15, 15)}


def tlc_jobs(tier, seed):
    consts = dict(U={2, 4, 6}, NewU={2, 3, 4, 6, 8}, MaxNew=3, Emit=True)
    if tier != "quick":
        consts = dict(U={2, 4, 6, 8}, NewU={0, 2, 3, 4, 6, 8, 10}, MaxNew=3, Emit=True)
    return [dict(tag=tier, module="MC_C07",
                 cfg=dict(constants=consts, invariants=["MovesWithLabels", "OwnLabelsIdentity", "RaiseIff", "MethodNoFill"]),
                 run=dict(timeout=3000))]


def _new_class(i):
    L = i["a"]["labs"][i["d"] - 1]
    new = i["new"]
    if not new:
        return "empty"
    if len(set(new)) < len(new):
        return "repeated"
    if new == L:
        return "own"
    if set(new) == set(L):
        return "permuted"
    if set(new) < set(L):
        return "subset"
    if set(new) > set(L):
        return "superset"
    if not (set(new) & set(L)):
        return "disjoint"
    return "overlap"


def classify(scn):
    i = scn["in"]
    out = ["fam=" + i["fam"]]
    if i["fam"] == "like":
        return out
    out += ["new=" + _new_class(i), "method=" + i["method"]]
    if _new_class(i) == "own":
        out.append("own")
    if i["raise"]:
        out.append("raise")
    if i["fill"] != -1:
        out.append("fill=number")
    return out


def signature(scn, variant):
    i = scn["in"]
    if i["fam"] == "like":
        return "reindex_like/%s/template=%s" % (variant, ",".join(i["t"]["dims"]))
    L = i["a"]["labs"][i["d"] - 1]
    order = "inc" if L == sorted(L) else ("dec" if L == sorted(L, reverse=True) else "shuffled")
    return "reindex/%s/%s/axis=%s/new=%s/method=%s/raise=%s/fill=%s/dtype=%s/expect=%s" % (
        i["fam"], variant, order, _new_class(i), i["method"], i["raise"], "nan" if i["fill"] == -1 else i["fkind"], i["a"]["dtype"],
        "ok" if scn["out"]["ok"] else scn["out"]["err"])


VARIANTS = [("i", "i", False, 0), ("f", "f", False, 0), ("s", "s", False, 0), ("i", "f", True, 0), ("f", "i", True, 0), ("i", "i", False, -4), ("f", "f", False, -2),
            ("f", "f", False, 2000000), ("u", "u", False, 0)]      # float labels around 1e6 spaced by 0.5; unsigned integer labels


def replay(scn):
    i = scn["in"]
    if i["fam"] == "like":
        return _replay_like(scn)
    viol, calls = [], 0
    a_abs = i["a"]
    d = i["d"] - 1
    exp = scn["out"]
    for vi, (ak, nk, mixed, off) in enumerate(VARIANTS):
        if mixed and (any(h % 2 for h in i["new"]) and nk == "i"):
            continue
        if mixed and i["fam"] == "nd":
            continue
        codec = A.LabelCodec(mixed=mixed, offset=off)       # shifted labels: 0 and negative labels occur
        kinds = ["i"] * len(a_abs["dims"])
        kinds[d] = ak
        for form in ("list", "ndarray", "axis", "negpos"):
            a = A.gamma(a_abs, codec, kinds)
            before = A.snapshot(a)
            newv = codec.enc_seq(i["new"], nk)
            kw = {}
            if i["fill"] != -1:
                kw["fill_value"] = A.cell_enc(i["fill"], i["fkind"])
            if i["raise"]:
                kw["raise_error"] = True
            if i["method"] != "none":
                kw["method"] = i["method"]
            calls += 1
            try:
                if form == "list":
                    res = a.reindex_axis(list(newv), axis=a_abs["dims"][d], **kw)
                elif form == "ndarray":
                    res = a.reindex_axis(newv, axis=d, **kw)
                elif form == "negpos":
                    res = a.reindex_axis(newv, axis=d - a.ndim, **kw)
                else:
                    res = a.reindex_axis(A.Axis(newv, a_abs["dims"][d]), **kw)
                err = None
            except Exception as e:  # noqa
                res, err = None, e
            what = None
            if A.snapshot(a) != before:
                what = "operand modified"
            elif not exp["ok"]:
                if err is None:
                    what = "expected %s, got a result" % exp["err"]
                elif not isinstance(err, IndexError):
                    what = "expected %s, got %s: %s" % (exp["err"], type(err).__name__, str(err)[:200])
            elif err is not None:
                what = "expected a result, got %s: %s" % (type(err).__name__, str(err)[:200])
            else:
                try:
                    act = A.project(res, codec)
                    e = dict(exp["val"])
                    ek = list(kinds)
                    ek[d] = nk
                    e["kinds"] = ek
                    what = A.compare(e, act, free_kinds=True) or None
                except A.Unprojectable as ex:
                    what = "result not projectable: %s" % ex
            if what is None and err is None and exp["ok"] and form in ("list", "ndarray") and ak == "i" and i["method"] == "none" and not i["raise"]:
                # the same call with the absent labels replaced by +inf / -inf / a whole number beyond the int64 range (open-ended bins):
                # floats like any other - the axis is exactly the requested labels, the cells are those of the scenario
                Lset = set(a_abs["labs"][d])
                absent = [q for q, h in enumerate(i["new"]) if h not in Lset]
                if absent and len(set(i["new"][q] for q in absent)) == len(absent):
                    specials = [np.inf, -np.inf, 1e19]
                    newf = [float(x) for x in codec.enc_seq(i["new"], "i" if not mixed else nk)]
                    for n_, q in enumerate(absent[:3]):
                        newf[q] = specials[n_]
                    calls += 1
                    try:
                        ri = a.reindex_axis(newf if form == "list" else np.array(newf), axis=a_abs["dims"][d], **kw)
                        gotl = [float(x) for x in ri.axes[d].values.tolist()]
                        if gotl != newf:
                            what = "labels with +-inf / 1e19: expected the axis %s got %s" % (newf, ri.axes[d].values.tolist())
                        else:
                            ev = [c for c in exp["val"]["cells"]]
                            av = [A.cell_dec(x) for x in ri.values.ravel().tolist()]
                            if ev != av:
                                what = "labels with +-inf / 1e19: cells expected %s got %s" % (ev[:8], av[:8])
                    except Exception as ex:  # noqa
                        what = "labels with +-inf / 1e19: raised %s: %s" % (type(ex).__name__, str(ex)[:200])
            if what is None and err is None and exp["ok"] and form in ("list", "axis") and i["fill"] != -1 and i["method"] == "none":
                # the same call with a fill value that is falsy (0, 0.0): it is a value like any other
                zero = 0 if i["fkind"] == "i" else 0.0
                calls += 1
                try:
                    rz = a.reindex_axis(list(newv), axis=a_abs["dims"][d], **dict(kw, fill_value=zero))
                    expv = [float(zero) if c == i["fill"] else float(A.cell_enc(c, a_abs["dtype"])) for c in exp["val"]["cells"]]
                    actv = [float(x) for x in rz.values.ravel().tolist()]
                    if len(expv) != len(actv) or any(not (x == y or (x != x and y != y)) for x, y in zip(expv, actv)):
                        what = "fill_value=%r: cells expected %s got %s" % (zero, expv[:8], actv[:8])
                    elif rz.values.dtype.kind != {"f": "f", "i": "i", "b": "b"}[exp["val"]["dtype"]]:
                        what = "fill_value=%r: dtype expected kind %s got %s" % (zero, exp["val"]["dtype"], rz.values.dtype)
                except Exception as ex:  # noqa
                    what = "fill_value=%r: raised %s: %s" % (zero, type(ex).__name__, str(ex)[:200])
            if what is None and err is None and exp["ok"] and form == "list" and a_abs["dtype"] == "i" and (i["fill"] == -1 or i["fkind"] == "f"):
                # the fill value given as a narrow NumPy float scalar, on integers that such a type cannot hold: the slices
                # at labels that existed must still equal the originals exactly
                BIG = 2 ** 24
                for ftype in (np.float32, np.float16):
                    big = a.copy()
                    big.values[...] += BIG
                    fv = ftype(kw.get("fill_value", np.nan))
                    calls += 1
                    try:
                        rb = big.reindex_axis(list(newv), axis=a_abs["dims"][d], **dict(kw, fill_value=fv))
                        expv = [float(fv) if c == i["fill"] else float(A.cell_enc(c, "i") + BIG) for c in exp["val"]["cells"]]
                        actv = [float(x) for x in rb.values.ravel().tolist()]
                        if len(expv) != len(actv) or any(not (x == y or (x != x and y != y)) for x, y in zip(expv, actv)):
                            what = "fill_value=%s(..): cells expected %s got %s" % (ftype.__name__, expv[:8], actv[:8])
                    except Exception as ex:  # noqa
                        what = "fill_value=%s(..): raised %s: %s" % (ftype.__name__, type(ex).__name__, str(ex)[:200])
                    if what:
                        break
            if what:
                viol.append(dict(what=what, sig=signature(scn, "%s<-%s%s/%s" % (ak, nk, ("@%d" % off) if off else "", form)), variant="%s<-%s %s off=%d" % (ak, nk, form, off)))
    return dict(violations=viol, calls=calls)


def _replay_like(scn):
    i = scn["in"]
    viol, calls = [], 0
    for kind in ("i", "f", "s"):
        codec = A.LabelCodec()
        a = A.gamma(i["a"], codec, [kind] * len(i["a"]["dims"]))
        t = A.gamma(i["t"], codec, [kind] * len(i["t"]["dims"]))
        for form in ("dimarray", "axes"):
            ba, bt = A.snapshot(a), A.snapshot(t)
            calls += 1
            what = None
            try:
                res = a.reindex_like(t if form == "dimarray" else t.axes)
            except Exception as e:  # noqa
                what = "raised %s: %s" % (type(e).__name__, str(e)[:200])
            if what is None and (A.snapshot(a) != ba or A.snapshot(t) != bt):
                what = "operand modified"
            if what is None:
                try:
                    act = A.project(res, codec)
                    e = dict(scn["out"]["val"], kinds=[kind] * len(scn["out"]["val"]["dims"]))
                    what = A.compare(e, act, free_kinds=True) or None
                except A.Unprojectable as ex:
                    what = "result not projectable: %s" % ex
            if what:
                viol.append(dict(what=what, sig=signature(scn, "%s/%s" % (kind, form)), variant="%s %s" % (kind, form)))
    return dict(violations=viol, calls=calls)



def post(tier, seed, ctx):
    """code -> spec: randomly driven calls (up to 4-d, axes up to 5 labels) recorded and validated by TLC against spec/TraceOps.tla"""
    from .. import trace_ops
    # ... plus every top-level call of these operations made by the repository's tests and docstring examples (harness/pytest_recorder.py)
    trace_ops.validate(PROP, tier, seed, ctx, ['reindex'], repo_tests="reindex")
