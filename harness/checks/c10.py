"""C10 - rearranging dimensions preserves every element's label coordinates."""
from collections import OrderedDict

import numpy as np

from .. import absarr as A

PROP = "C10"
RULE = ("every program of 1-2 rearranging operations (transpose, T, swapaxes, rollaxis, newaxis, squeeze, repeat, broadcast) "
        "on the template arrays, enumerated by TLC from spec/MC_C10.tla; each step's result compared; dims given by name and by position")
ASSUMPTIONS = ["broadcast targets carry the array's own labels on shared non-singleton dimensions and have size >= 2 elsewhere"]

FLOORS = {"op=transpose": (50, 50), "op=T": (5, 5), "op=swapaxes": (50, 50), "op=rollaxis": (50, 50), "op=newaxis": (50, 50),
          "op=squeeze": (20, 20), "op=repeat": (20, 20), "op=broadcast": (50, 50), "len=2": (500, 500), "ndim=3": (100, 100),
          "bcarrays": (10, 10)}

KINDMAPS = [{"x": "i", "y": "i", "z": "i", "s": "i", "n": "i"}, {"x": "i", "y": "s", "z": "f", "s": "f", "n": "s"},
            {"x": "u", "y": "f", "z": "u", "s": "u", "n": "i"}]          # unsigned labels


def tlc_jobs(tier, seed):
    jobs = [dict(tag=tier, module="MC_C10",
                 cfg=dict(constants=dict(MaxOps=2, Big=(tier != "quick"), Emit=True),
                          invariants=["CoordPreserved", "WF", "NoLoss", "TransposeInverse", "SqueezeNewAxis"]),
                 run=dict(timeout=3000)),
            dict(tag=tier + "_bc", module="MC_C10b",
                 cfg=dict(constants=dict(Emit=True), invariants=["BcSound"]), run=dict(timeout=3000))]
    return jobs


def classify(scn):
    if scn["op"] == "broadcast_arrays":
        return ["bcarrays"]
    ops = scn["in"]["ops"]
    return ["op=" + o["op"] for o in ops] + ["len=%d" % len(ops), "ndim=%d" % len(scn["in"]["a"]["dims"])]


def signature(scn, variant, step):
    if scn["op"] == "broadcast_arrays":
        return "broadcast_arrays/%s/dims=%s" % (variant, "|".join(",".join(a["dims"]) for a in scn["in"]["arrs"]))
    ops = scn["in"]["ops"]
    return "reshape/%s/%s/step=%d/ndim=%d" % ("+".join(o["op"] for o in ops[:step + 1]), variant, step, len(scn["in"]["a"]["dims"]))


def _ref(a, i, byname):
    """dimension reference for 1-based position i: a name, a position, a position counted from the end ("neg"), or positions of
    which only the last / the first dimension is counted from the end ("mixlast", "mixfirst")"""
    if byname is True:
        return a.dims[i - 1]
    if byname == "neg" or (byname == "mixlast" and i == a.ndim) or (byname == "mixfirst" and i == 1):
        return i - 1 - a.ndim
    return i - 1


def _apply(a, o, byname, kmap, codec, form):
    op = o["op"]
    if op == "transpose":
        refs = [_ref(a, i, byname) for i in o["perm"]]
        if form == 0:
            return a.transpose(refs)
        return a.transpose(*refs) if refs else a.transpose()
    if op == "T":
        return a.T
    if op == "swapaxes":
        return a.swapaxes(_ref(a, o["i"], byname), _ref(a, o["j"], byname))
    if op == "rollaxis":
        return a.rollaxis(_ref(a, o["i"], byname), o["j"])
    if op == "newaxis":
        pos = o["i"]
        if form == 1 and pos == a.ndim:
            pos = -1
        vals = codec.enc_seq(o["vals"], kmap["n"]) if o["vals"] else None
        if vals is not None and form == 1:
            vals = list(vals)
        if o["j"]:
            vals = int(o["j"])            # a count
        return a.newaxis(o["name"], values=vals, pos=pos)
    if op == "squeeze":
        if o["i"] == 0:
            return a.squeeze()
        return a.squeeze(_ref(a, o["i"], byname))
    if op == "repeat":
        d = o["i"]
        if o["j"] == 1:
            return a.repeat(len(o["vals"]), axis=_ref(a, d, byname))
        vals = codec.enc_seq(o["vals"], kmap[a.dims[d - 1]])
        if form == 1:
            return a.repeat(A.Axis(vals, a.dims[d - 1]))
        return a.repeat(vals, axis=_ref(a, d, byname))
    if op == "broadcast":
        axes = [A.Axis(codec.enc_seq(l, kmap[d]), d) for d, l in zip(o["tdims"], o["tlabs"])]
        if form == 0:
            return a.broadcast(axes)
        if form == 1:
            shape = [len(l) for l in o["tlabs"]]
            return a.broadcast(A.DimArray(np.zeros(shape), axes=axes))
        return a.broadcast(OrderedDict((ax.name, ax.values) for ax in axes))
    raise ValueError(op)


def _expected(e, kmap, o=None):
    kinds = []
    for d, k, l in zip(e["dims"], e["kinds"], e["labs"]):
        kinds.append("n" if k == "n" else kmap[d])
    e = dict(e, kinds=kinds)
    return e


def replay(scn):
    if scn["op"] == "broadcast_arrays":
        return _replay_bc(scn)
    viol = []
    calls = 0
    a_abs = scn["in"]["a"]
    ops = scn["in"]["ops"]
    for ki, kmap in enumerate(KINDMAPS):
        for byname in (True, False, "neg", "mixlast", "mixfirst"):
            if byname not in (True, False) and (ki != 0 or not any(o["op"] in ("transpose", "swapaxes", "rollaxis", "squeeze", "repeat") for o in ops)):
                continue
            for form in (0, 1, 2):
                if form == 2 and not any(o["op"] == "broadcast" for o in ops):
                    continue
                codec = A.LabelCodec()
                kinds = [kmap[d] for d in a_abs["dims"]]
                cur = A.gamma(a_abs, codec, kinds)
                variant = "kinds=%d byname=%s form=%d" % (ki, byname, form)
                kmap = dict(kmap)
                for step, o in enumerate(ops):
                    before = A.snapshot(cur)
                    calls += 1
                    what = None
                    try:
                        res = _apply(cur, o, byname, kmap, codec, form)
                    except Exception as e:  # noqa
                        what = "step %d (%s) raised %s: %s" % (step, o["op"], type(e).__name__, str(e)[:200])
                        res = None
                    if what is None and A.snapshot(cur) != before:
                        what = "step %d (%s) modified its operand" % (step, o["op"])
                    if what is None:
                        try:
                            act = A.project(res, codec)
                            if o["op"] == "repeat" and o["j"] == 1:
                                kmap[cur.dims[o["i"] - 1]] = "i"      # repeat(int) labels are 0..n-1
                            if o["op"] == "newaxis" and o["j"]:
                                kmap["n"] = "i"                        # newaxis(values=<count>) labels are 0..n-1
                            exp = _expected(scn["out"][step], kmap)
                            # labels of integer repeats are plain ints: compare through an int codec for that axis
                            what = A.compare(exp, act, check_aattrs=(o["op"] not in ("repeat", "broadcast", "newaxis")))
                            what = what or None
                        except A.Unprojectable as e:
                            what = "step %d (%s): result not projectable: %s" % (step, o["op"], e)
                    if what:
                        viol.append(dict(what=what, sig=signature(scn, "byname=%s" % byname, step), variant=variant))
                        break
                    cur = res
    return dict(violations=viol, calls=calls)


def _replay_bc(scn):
    viol = []
    calls = 0
    arrs = scn["in"]["arrs"]
    for ki, kmap in enumerate(KINDMAPS):
        codec = A.LabelCodec()
        objs = [A.gamma(a, codec, [kmap[d] for d in a["dims"]]) for a in arrs]
        before = [A.snapshot(o) for o in objs]
        calls += 1
        what = None
        try:
            res = A.da.broadcast_arrays(*objs)
        except Exception as e:  # noqa
            what = "raised %s: %s" % (type(e).__name__, str(e)[:200])
            res = None
        if what is None and [A.snapshot(o) for o in objs] != before:
            what = "operand modified"
        if what is None and len(res) != len(scn["out"]):
            what = "expected %d arrays, got %d" % (len(scn["out"]), len(res))
        if what is None:
            for k, (r, e) in enumerate(zip(res, scn["out"])):
                try:
                    act = A.project(r, codec)
                    what = A.compare(_expected(e, kmap), act, check_aattrs=False) or None
                except A.Unprojectable as ex:
                    what = "result %d not projectable: %s" % (k, ex)
                if what:
                    what = "output %d: %s" % (k, what)
                    break
        if what:
            viol.append(dict(what=what, sig=signature(scn, "kinds=%d" % ki, 0), variant="kinds=%d" % ki))
    return dict(violations=viol, calls=calls)



def post(tier, seed, ctx):
    """code -> spec: randomly driven calls (up to 4-d, axes up to 5 labels) recorded and validated by TLC against spec/TraceOps.tla"""
    from .. import trace_ops
    # ... plus every top-level call of these operations made by the repository's tests and docstring examples (harness/pytest_recorder.py)
    trace_ops.validate(PROP, tier, seed, ctx, ['reshape'], repo_tests="reshape")
