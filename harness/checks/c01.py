"""C01 - label / position indexing returns exactly the addressed elements."""
import numpy as np

from .. import absarr as A
from ..indexing import index_tuple, read_spellings, do_read, OPTION_SPELLINGS

PROP = "C01"
RULE = ("every (array, index tuple, mode, tolerance) scenario enumerated by TLC from spec/MC_C01.tla, replayed through "
        "every applicable spelling and label kind; distinct = distinct scenario lines")
ASSUMPTIONS = ["absent labels are of the axis' own kind", "axes carry unique labels"]

FLOORS = {"ndim=0": (1, 1), "ndim=1": (50, 50), "ndim=2": (200, 200), "k=sc": (100, 100), "k=li": (100, 100),
          "k=mk": (100, 100), "k=sl": (20, 20), "absent": (50, 50), "li-repeat": (20, 20), "li-empty": (20, 20),
          "tol-accept": (20, 20), "tol-reject": (20, 20), "mode=position": (200, 200), "mode=label": (200, 200),
          "pos-negative": (20, 20), "pos-out-of-range": (20, 20)}


def tlc_jobs(tier, seed):
    consts = dict(U={2, 4, 6}, MaxDim=2, Emit=True)
    subst = dict(U2="U2Quick")
    jobs = []
    if tier == "thorough":
        consts = dict(U={2, 4, 6}, MaxDim=3, Emit=True)
        subst = dict(U2="U2Thorough")
    jobs.append(dict(tag=tier, module="MC_C01",
                     cfg=dict(constants=consts, subst=subst,
                              invariants=["TakeAllIdentity", "ResultSound", "ErrorIffUnresolved", "KeepDimsLaw"]),
                     run=dict(timeout=3000)))
    return jobs


def classify(scn):
    i = scn["in"]
    out = ["ndim=%d" % len(i["a"]["dims"]), "mode=" + i["mode"]]
    for ix, labs in zip(i["idxs"], i["a"]["labs"]):
        out.append("k=" + ix["k"])
        if i["mode"] == "label" and not i["tol"]:
            if ix["k"] == "sc" and ix["v"] not in labs:
                out.append("absent")
            if ix["k"] == "li":
                if any(v not in labs for v in ix["l"]):
                    out.append("absent")
                if len(set(ix["l"])) < len(ix["l"]):
                    out.append("li-repeat")
                if not ix["l"]:
                    out.append("li-empty")
        if i["mode"] == "position":
            if ix["k"] == "sc" and ix["v"] < 0 or ix["k"] == "li" and any(v < 0 for v in ix["l"]):
                out.append("pos-negative")
            if ix["k"] == "sc" and not (-len(labs) <= ix["v"] < len(labs)):
                out.append("pos-out-of-range")
    if i["tol"]:
        out.append("tol-accept" if scn["out"]["ok"] else "tol-reject")
    return out


def idx_class(ix, labs, mode):
    k = ix["k"]
    if k == "li":
        if not ix["l"]:
            return "li:empty"
        if mode == "label" and any(v not in labs for v in ix["l"]):
            return "li:absent"
        if len(set(ix["l"])) < len(ix["l"]):
            return "li:repeat"
        return "li"
    if k == "sc" and mode == "label" and ix["v"] not in labs:
        return "sc:absent"
    if k == "mk":
        return "mk:none" if not any(ix["m"]) else "mk"
    return k


def signature(scn, kind, spelling):
    i = scn["in"]
    parts = [idx_class(ix, labs, i["mode"]) for ix, labs in zip(i["idxs"], i["a"]["labs"])]
    return "take/%s/kind=%s/%s/idx=%s/tol=%s/expect=%s" % (
        i["mode"], kind, spelling, ",".join(parts) or "-", "y" if i["tol"] else "n",
        "ok" if scn["out"]["ok"] else scn["out"]["err"])


def kind_variants(scn):
    i = scn["in"]
    nd = len(i["a"]["dims"])
    if i["mode"] == "position":
        return [["i"] * nd, ["s"] * nd]
    if i["tol"]:
        return [["i"] * nd, ["f"] * nd]
    return [["i"] * nd, ["f"] * nd, ["s"] * nd, ["u"] * nd]         # u: unsigned integer labels (uint16)


def replay(scn):
    i = scn["in"]
    nd = len(i["a"]["dims"])
    extra = []
    if i["mode"] == "label" and nd >= 1 and all(h % 2 == 0 for l in i["a"]["labs"] for h in l):
        # index values of another kind than the axis: an integer axis read with float labels (the absent labels of the menus
        # are then fractional: 1.5 on the axis 1, 2, 3 - never to be truncated to a neighbour), a float axis read with integers
        extra.append(dict(kinds=["i"] * nd, idx_kinds=["f"] * nd, mixed=True))
        if all(_even_idx(ix) for ix in i["idxs"]):
            extra.append(dict(kinds=["f"] * nd, idx_kinds=["i"] * nd, mixed=True))
    return replay_take(scn, kind_variants(scn), signature, extra_variants=extra)


def _even_idx(ix):
    if ix["k"] == "sc":
        return ix["v"] % 2 == 0
    if ix["k"] == "li":
        return all(v % 2 == 0 for v in ix["l"])
    return True


def variants_f(variants):
    return [k for k, off in variants if off == 0 and "f" in k][:1]


def replay_take(scn, variants, signature, extra_variants=()):
    """variants: lists of label kinds (one per dimension).  extra_variants: dicts(kinds, idx_kinds, mixed) where the index
    values are encoded with another kind than the axis (e.g. fractional slice bounds on an integer axis)"""
    i = scn["in"]
    a_abs = i["a"]
    mode = i["mode"]
    exp = scn["out"]
    viol = []
    calls = 0
    # numeric variants are replayed a second time with shifted labels so that 0 and negative labels occur
    variants = [(k, 0) for k in variants] + [(k, off) for k, off in zip(variants, (-4, -2, -6)) if "s" not in k][:1 + len(variants) // 2]
    # float labels of large magnitude next to each other (1e6, 1e6 + 0.5, ..): equal only if exactly equal
    variants = variants + [(k, 2000000) for k in variants_f(variants)]
    variants = list(variants) + [(ev, None) for ev in extra_variants]
    for vi, (kinds, off) in enumerate(variants):
        idx_kinds = None
        if off is None:
            ev = kinds
            kinds, idx_kinds = ev["kinds"], ev["idx_kinds"]
            codec = A.LabelCodec(mixed=ev.get("mixed", False))
            kind = "".join(kinds) + "/idx=" + "".join(idx_kinds)
        else:
            codec = A.LabelCodec(offset=off)
            kind = "".join(kinds) + ("" if not off else "@%d" % off)
        tol = codec.tol(i["tol"][0], kinds[0]) if i["tol"] else None
        for si, sp in enumerate(read_spellings(mode, i["idxs"], a_abs["dims"], tol)):
            form = (si + vi) % 2
            tup = index_tuple(i["idxs"], idx_kinds or kinds, codec, mode, form)
            # equal index arrays are passed as one and the same object (a.ix[i, i]); the caller's index objects must not change
            tl = list(tup)
            for q in range(len(tl)):
                for r in range(q):
                    if isinstance(tl[q], np.ndarray) and isinstance(tl[r], np.ndarray) and tl[q].dtype == tl[r].dtype and tl[q].shape == tl[r].shape \
                            and tl[q].dtype.kind in "iu" and np.array_equal(tl[q], tl[r]):
                        tl[q] = tl[r]
            tup = tuple(tl)
            tup_before = repr(tup)
            prev = None
            try:
                if sp in OPTION_SPELLINGS:
                    optval, fn = OPTION_SPELLINGS[sp]
                    prev = A.da.get_option("indexing.by")
                    A.da.set_option("indexing.by", optval)
                a = A.gamma(a_abs, codec, kinds)
                before = A.snapshot(a)
                calls += 1
                try:
                    if sp in OPTION_SPELLINGS:
                        res = fn(a, tup, tol)
                    elif sp == "take_keepdims":          # compared with the scenario's `keep` outcome
                        res = a.take(tup, indexing=mode, keepdims=True)
                    else:
                        res = do_read(a, sp, tup, a_abs["dims"], i["idxs"], tol, A.da)
                    err = None
                except Exception as e:   # noqa
                    res, err = None, e
            finally:
                if prev is not None:
                    A.da.set_option("indexing.by", prev)
            what = None
            exp = scn["keep"] if (sp == "take_keepdims" and "keep" in scn) else scn["out"]
            if sp == "take_keepdims" and "keep" not in scn:
                continue
            if A.snapshot(a) != before:
                what = "operand modified by a read"
            elif repr(tup) != tup_before:
                what = "the index passed to the read was modified: %s -> %s" % (tup_before[:150], repr(tup)[:150])
            elif exp["ok"]:
                if err is not None:
                    what = "expected a result, got %s: %s" % (type(err).__name__, str(err)[:200])
                else:
                    try:
                        act = A.project(res, codec)
                        ek = [kinds[a_abs["dims"].index(d)].replace("u", "i") for d in exp["val"]["dims"]]
                        e2 = dict(exp["val"], kinds=ek)
                        what = A.compare(e2, act) or None
                    except A.Unprojectable as e:
                        what = "result not projectable: %s" % e
                    if what is None and vi == 0 and sp not in OPTION_SPELLINGS:      # (arrays built under another 'indexing.by' keep that default by design)
                        what = A.second_step_probe(res)      # the result is an array in its own right: default indexing on it means the same
            else:
                if err is None:
                    what = "expected %s, got a result" % exp["err"]
                elif not isinstance(err, IndexError):
                    what = "expected %s, got %s: %s" % (exp["err"], type(err).__name__, str(err)[:200])
            if what:
                viol.append(dict(what=what, sig=signature(scn, kind, sp), variant="kinds=%s spelling=%s form=%d" % (kind, sp, form)))
    return dict(violations=viol, calls=calls)



def post(tier, seed, ctx):
    """code -> spec: randomly driven calls (up to 4-d, axes up to 5 labels) recorded and validated by TLC against spec/TraceOps.tla"""
    from .. import trace_ops
    # ... plus every top-level read made by the repository's own test suite, recorded by harness/pytest_recorder.py
    trace_ops.validate(PROP, tier, seed, ctx, ['take'], repo_tests="take")
