"""C08 - reductions equal NumPy's along the named axis and drop only that axis."""
import numpy as np

from .. import absarr as A

PROP = "C08"
RULE = ("every (array shape, NaN pattern, dtype, axis spec, skipna) scenario enumerated by TLC from spec/MC_C08.tla; the spec gives, for "
        "every output coordinate, the ordered fibre of input cells and the NaN policy; each of the 11 reductions and percentile is evaluated "
        "by NumPy on exactly those fibres and compared with dimarray's result (values, dims, labels, metadata)")
ASSUMPTIONS = ["NumPy's 1-d functions are the arithmetic oracle", "all/any/min/max/ptp are not compared on fibres emptied by skipna=True",
               "ptp is not applied to boolean data (NumPy refuses boolean subtraction)"]

FUNCS = ["sum", "prod", "mean", "var", "std", "min", "max", "ptp", "all", "any", "median"]

FLOORS = {"spec=name": (200, 200), "spec=pos": (200, 200), "spec=neg": (200, 200), "spec=tuple": (100, 100), "spec=none": (100, 100),
          "skipna=True": (500, 500), "nan=some": (300, 300), "nan=allfibre": (100, 100), "dtype=i": (50, 50), "dtype=b": (50, 50),
          "scalar-result": (100, 100), "size1-axis": (100, 100), "percentile": (200, 200)}


def tlc_jobs(tier, seed):
    return [dict(tag=tier, module="MC_C08",
                 cfg=dict(constants=dict(Emit=True), subst=dict(Shapes="ShapesQuick" if tier == "quick" else "ShapesThorough"),
                          invariants=["DropsOnlyAxis", "Partition"]),
                 run=dict(timeout=3000))]


def classify(scn):
    i = scn["in"]
    a = i["a"]
    out = ["spec=" + i["spec"]["k"], "skipna=%s" % i["skipna"], "dtype=" + a["dtype"]]
    if any(c < 0 for c in a["cells"]):
        out.append("nan=some")
    if any(t["fib"] == [] or (t["nan"] and all(c < 0 for c in t["fib"])) for t in scn["out"]["cells"]):
        out.append("nan=allfibre")
    if not scn["out"]["dims"]:
        out.append("scalar-result")
    if any(len(a["labs"][d - 1]) == 1 for d in i["spec"]["dims"]):
        out.append("size1-axis")
    if i["spec"]["k"] in ("name", "pos") and not i["skipna"]:
        out.append("percentile")
    return out


def signature(scn, func, form):
    i = scn["in"]
    a = i["a"]
    nanc = "none" if all(c >= 0 for c in a["cells"]) else ("all" if all(c < 0 for c in a["cells"]) else "some")
    return "reduce/%s/%s/spec=%s:%s/shape=%s/dtype=%s/nan=%s/skipna=%s" % (
        func, form, i["spec"]["k"], "".join(str(d) for d in i["spec"]["dims"]), "x".join(str(len(l)) for l in a["labs"]),
        a["dtype"], nanc, i["skipna"])


def _axis_arg(i, form):
    spec = i["spec"]
    dims = i["a"]["dims"]
    k = spec["k"]
    if k == "name":
        return dims[spec["dims"][0] - 1]
    if k == "pos":
        return spec["dims"][0] - 1
    if k == "neg":
        return spec["dims"][0] - 1 - len(dims)
    if k == "tuple":
        t = [dims[d - 1] for d in spec["dims"]]
        return tuple(t) if form == 0 else list(t)
    return None


_EMPTY = {"sum": 0.0, "prod": 1.0}


def _eval(func, term, dtype):
    vals = [A.cell_enc(c, dtype) for c in term["fib"]]
    if term["nan"] and func not in ("all", "any"):
        return np.nan
    if not vals:
        if func in _EMPTY:
            return _EMPTY[func]
        if func in ("all", "any", "min", "max", "ptp"):
            return None            # not compared
        return np.nan
    arr = np.array(vals, dtype={"f": float, "i": int, "b": bool}[dtype])
    return getattr(np, func)(arr)


def _close(x, y):
    if x is None:
        return True
    if isinstance(x, (bool, np.bool_)) or isinstance(y, (bool, np.bool_)):
        return bool(x) == bool(y)
    x, y = float(x), float(y)
    if x != x or y != y:
        return x != x and y != y
    if np.isinf(x) or np.isinf(y):
        return x == y
    return abs(x - y) <= 1e-9 * max(1.0, abs(x), abs(y))


def _check_result(res, exp, expected_vals, codec, kinds):
    if not exp["dims"]:
        if isinstance(res, A.DimArray) and res.ndim != 0:
            return "expected a scalar, got a %d-d array" % res.ndim
        v = res.values if isinstance(res, A.DimArray) else res
        if np.ndim(v) != 0:
            return "expected a scalar, got %s" % type(res).__name__
        return "" if _close(expected_vals[0], np.asarray(v).item()) else "value: expected %r got %r" % (expected_vals[0], v)
    if not isinstance(res, A.DimArray):
        return "expected a DimArray with dims %s, got %s" % (exp["dims"], type(res).__name__)
    try:
        pa = A.project_axes(res, codec)
    except A.Unprojectable as ex:
        return "result not projectable: %s" % ex
    e = dict(exp, kinds=[kinds[d] for d in exp["dims"]])
    e.pop("cells")
    w = A.compare(e, pa, dtype_any=["f", "i", "b"])
    if w:
        return w
    act = res.values.ravel().tolist()
    if len(act) != len(expected_vals) or not all(_close(x, y) for x, y in zip(expected_vals, act)):
        return "values: expected %s got %s" % (expected_vals, act)
    return ""


def replay(scn):
    i = scn["in"]
    a_abs = i["a"]
    exp = scn["out"]
    viol, calls = [], 0
    kinds = {"x": "i", "y": "s", "z": "f", "w": "i"}
    codec = A.LabelCodec()
    old = np.seterr(all="ignore")
    import warnings
    warnings.simplefilter("ignore")
    try:
        a = A.gamma(a_abs, codec, [kinds[d] for d in a_abs["dims"]])
        before = A.snapshot(a)
        dt = a_abs["dtype"]
        forms = (0, 1) if i["spec"]["k"] == "tuple" else (0,)
        for func in FUNCS:
            if func == "ptp" and dt == "b":
                continue
            expected_vals = [_eval(func, t, dt) for t in exp["cells"]]
            for form in forms:
                ax = _axis_arg(i, form)
                calls += 1
                what = None
                try:
                    kw = dict(skipna=i["skipna"])
                    if i["spec"]["k"] != "none" or form == 1:
                        kw["axis"] = ax
                    res = getattr(a, func)(**kw)
                except Exception as e:  # noqa
                    what = "raised %s: %s" % (type(e).__name__, str(e)[:200])
                if what is None and A.snapshot(a) != before:
                    what = "operand modified"
                if what is None:
                    what = _check_result(res, exp, expected_vals, codec, kinds) or None
                if what:
                    viol.append(dict(what=what, sig=signature(scn, func, "form%d" % form), variant="%s form=%d" % (func, form)))
        # percentile (a library function): single axis, NaN propagates as in NumPy
        if i["spec"]["k"] in ("name", "pos") and not i["skipna"] and dt != "b":
            from dimarray.lib import percentile
            ax = _axis_arg(i, 0)
            for q in (50, [25, 100]):
                calls += 1
                what = None
                try:
                    res = percentile(a, q, axis=ax)
                except Exception as e:  # noqa
                    what = "raised %s: %s" % (type(e).__name__, str(e)[:200])
                if what is None and A.snapshot(a) != before:
                    what = "operand modified"
                if what is None:
                    qs = [q] if np.isscalar(q) else q
                    vals = []
                    for qq in qs:
                        for t in exp["cells"]:
                            arr = np.array([A.cell_enc(c, dt) for c in t["fib"]], dtype=float)
                            vals.append(np.percentile(arr, qq))
                    if np.isscalar(q):
                        what = _check_result(res, exp, vals, codec, kinds) or None
                    else:
                        dname = a_abs["dims"][i["spec"]["dims"][0] - 1] + "_percentile"
                        e2 = dict(exp, dims=[dname] + exp["dims"], labs=[qs] + exp["labs"], aattrs=[0] + exp["aattrs"])
                        k2 = dict(kinds)
                        k2[dname] = "i"
                        what = _check_result(res, e2, vals, codec, k2) or None
                if what:
                    viol.append(dict(what=what, sig=signature(scn, "percentile", "q=%s" % ("scalar" if np.isscalar(q) else "list")),
                                     variant="percentile q=%s" % (q,)))
    finally:
        np.seterr(**old)
    return dict(violations=viol, calls=calls)
