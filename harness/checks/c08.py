"""C08 - reductions equal NumPy's along the named axis and drop only that axis."""
import numpy as np

from .. import absarr as A

PROP = "C08"
RULE = ("every (array shape, NaN pattern, dtype, axis spec, skipna) scenario enumerated by TLC from spec/MC_C08.tla; the spec gives, for "
        "every output coordinate, the ordered fibre of input cells and the NaN policy; each of the 11 reductions and percentile is evaluated "
        "by NumPy on exactly those fibres and compared with dimarray's result (values, dims, labels, metadata)")
ASSUMPTIONS = ["NumPy's 1-d functions are the arithmetic oracle", "all/any/min/max/ptp are not compared on fibres emptied by skipna=True",
               "ptp is not applied to boolean data (NumPy refuses boolean subtraction)"]

FUNCS = ["sum", "prod", "mean", "var", "std", "min", "max", "ptp", "all", "any", "median"]

FLOORS = {"spec=name": (200, 200), "spec=pos": (200, 200), "spec=neg": (200, 200), "spec=tuple": (100, 100), "spec=none": (100, 100),
          "skipna=True": (500, 500), "nan=some": (300, 300), "nan=allfibre": (100, 100), "dtype=i": (50, 50), "dtype=b": (50, 50),
          "scalar-result": (100, 100), "size1-axis": (100, 100), "percentile": (200, 200)}


def tlc_jobs(tier, seed):
    return [dict(tag=tier, module="MC_C08",
                 cfg=dict(constants=dict(Emit=True), subst=dict(Shapes="ShapesQuick" if tier == "quick" else "ShapesThorough"),
                          invariants=["DropsOnlyAxis", "Partition"]),
                 run=dict(timeout=3000))]


def classify(scn):
    i = scn["in"]
    a = i["a"]
    out = ["spec=" + i["spec"]["k"], "skipna=%s" % i["skipna"], "dtype=" + a["dtype"]]
    if any(c < 0 for c in a["cells"]):
        out.append("nan=some")
    if any(t["fib"] == [] or (t["nan"] and all(c < 0 for c in t["fib"])) for t in scn["out"]["cells"]):
        out.append("nan=allfibre")
    if not scn["out"]["dims"]:
        out.append("scalar-result")
    if any(len(a["labs"][d - 1]) == 1 for d in i["spec"]["dims"]):
        out.append("size1-axis")
    if i["spec"]["k"] in ("name", "pos") and not i["skipna"]:
        out.append("percentile")
    return out


def signature(scn, func, form):
    i = scn["in"]
    a = i["a"]
    nanc = "none" if all(c >= 0 for c in a["cells"]) else ("all" if all(c < 0 for c in a["cells"]) else "some")
    return "reduce/%s/%s/spec=%s:%s/shape=%s/dtype=%s/nan=%s/skipna=%s" % (
        func, form, i["spec"]["k"], "".join(str(d) for d in i["spec"]["dims"]), "x".join(str(len(l)) for l in a["labs"]),
        a["dtype"], nanc, i["skipna"])


def _axis_arg(i, form):
    spec = i["spec"]
    dims = i["a"]["dims"]
    k = spec["k"]
    if k == "name":
        return dims[spec["dims"][0] - 1]
    if k == "pos":
        return spec["dims"][0] - 1
    if k == "neg":
        return spec["dims"][0] - 1 - len(dims)
    if k == "tuple":
        t = [dims[d - 1] for d in spec["dims"]]
        return tuple(t) if form == 0 else list(t)
    return None


_EMPTY = {"sum": 0.0, "prod": 1.0}


def _venc(c, dtype, zeros):
    """cell -> value; in the 'zeros' variant even identifiers stand for the value 0 (falsy data for all / any / prod / min)"""
    if zeros == "inf":           # float data with infinities of both signs (no NaN among them)
        if dtype == "f" and c >= 0 and c % 3 == 0:
            return np.inf
        if dtype == "f" and c >= 0 and c % 3 == 1:
            return -np.inf
        return A.cell_enc(c, dtype)
    if zeros and c >= 0 and c % 2 == 0:
        return {"f": 0.0, "i": 0, "b": False}[dtype]
    return A.cell_enc(c, dtype)


def _eval(func, term, dtype, zeros=False):
    vals = [_venc(c, dtype, zeros) for c in term["fib"]]
    if term["nan"] and func not in ("all", "any"):
        return np.nan
    if not vals:
        if func in _EMPTY:
            return _EMPTY[func]
        if func in ("all", "any", "min", "max", "ptp"):
            return None            # not compared
        return np.nan
    arr = np.array(vals, dtype={"f": float, "i": int, "b": bool}[dtype])
    return getattr(np, func)(arr)


def _close(x, y):
    if x is None:
        return True
    if isinstance(x, (bool, np.bool_)) or isinstance(y, (bool, np.bool_)):
        return bool(x) == bool(y)
    x, y = float(x), float(y)
    if x != x or y != y:
        return x != x and y != y
    if np.isinf(x) or np.isinf(y):
        return x == y
    return abs(x - y) <= 1e-9 * max(1.0, abs(x), abs(y))


def _check_result(res, exp, expected_vals, codec, kinds):
    if not exp["dims"]:
        if isinstance(res, A.DimArray) and res.ndim != 0:
            return "expected a scalar, got a %d-d array" % res.ndim
        v = res.values if isinstance(res, A.DimArray) else res
        if np.ndim(v) != 0:
            return "expected a scalar, got %s" % type(res).__name__
        return "" if _close(expected_vals[0], np.asarray(v).item()) else "value: expected %r got %r" % (expected_vals[0], v)
    if not isinstance(res, A.DimArray):
        return "expected a DimArray with dims %s, got %s" % (exp["dims"], type(res).__name__)
    try:
        pa = A.project_axes(res, codec)
    except A.Unprojectable as ex:
        return "result not projectable: %s" % ex
    e = dict(exp, kinds=[kinds[d] for d in exp["dims"]])
    e.pop("cells")
    w = A.compare(e, pa, dtype_any=["f", "i", "b"])
    if w:
        return w
    act = res.values.ravel().tolist()
    if len(act) != len(expected_vals) or not all(_close(x, y) for x, y in zip(expected_vals, act)):
        return "values: expected %s got %s" % (expected_vals, act)
    return ""


def replay(scn):
    i = scn["in"]
    a_abs = i["a"]
    exp = scn["out"]
    viol, calls = [], 0
    kinds = {"x": "i", "y": "s", "z": "f", "w": "i"}
    codec = A.LabelCodec()
    old = np.seterr(all="ignore")
    import warnings
    warnings.simplefilter("ignore")
    try:
      for zeros in ((False, True, "inf") if a_abs["dtype"] == "f" else (False, True)):
        a = A.gamma(a_abs, codec, [kinds[d] for d in a_abs["dims"]])
        dt = a_abs["dtype"]
        if zeros:
            for k, c in enumerate(a_abs["cells"]):
                if c >= 0 and (c % 2 == 0 or zeros == "inf"):
                    a.values[np.unravel_index(k, a.values.shape)] = _venc(c, dt, zeros)     # (row-major cell k, whatever the memory layout)
        before = A.snapshot(a)
        forms = (0, 1) if i["spec"]["k"] == "tuple" else (0,)
        if i["spec"]["k"] in ("name", "tuple") and not zeros and all(n in A.DIGIT_NAMES for n in a_abs["dims"]):
            forms = forms + ("digit",)          # the same call on dimensions named '1', '0', ..: a name is never a position
        for func in FUNCS:
            if func == "ptp" and dt == "b":
                continue
            expected_vals = [_eval(func, t, dt, zeros) for t in exp["cells"]]
            for form in forms:
                ax = _axis_arg(i, 0 if form == "digit" else form)
                calls += 1
                what = None
                if form == "digit":
                    A.digit_dims(a)
                    ax = A.DIGIT_NAMES[ax] if isinstance(ax, str) else tuple(A.DIGIT_NAMES[n] for n in ax)
                try:
                    kw = dict(skipna=i["skipna"])
                    if i["spec"]["k"] != "none" or form == 1:
                        kw["axis"] = ax
                    res = getattr(a, func)(**kw)
                except Exception as e:  # noqa
                    what = "raised %s: %s" % (type(e).__name__, str(e)[:200])
                if form == "digit":
                    A.digit_dims(a, back=True)
                    if what is None:
                        A.digit_dims(res, back=True)
                if what is None and A.snapshot(a) != before:
                    what = "operand modified"
                if what is None:
                    what = _check_result(res, exp, expected_vals, codec, kinds) or None
                if what:
                    viol.append(dict(what=what, sig=signature(scn, func, "form%s%s" % (form, ("/" + ("inf" if zeros == "inf" else "zeros")) if zeros else "")), variant="%s form=%s zeros=%s" % (func, form, zeros)))
        if zeros:
            continue
        # percentile (a library function): single axis, NaN propagates as in NumPy
        if i["spec"]["k"] in ("name", "pos") and not i["skipna"] and dt != "b":
            from dimarray.lib import percentile
            ax = _axis_arg(i, 0)
            for q in (50, [25, 100]):
                calls += 1
                what = None
                try:
                    res = percentile(a, q, axis=ax)
                except Exception as e:  # noqa
                    what = "raised %s: %s" % (type(e).__name__, str(e)[:200])
                if what is None and A.snapshot(a) != before:
                    what = "operand modified"
                if what is None:
                    qs = [q] if np.isscalar(q) else q
                    vals = []
                    for qq in qs:
                        for t in exp["cells"]:
                            arr = np.array([A.cell_enc(c, dt) for c in t["fib"]], dtype=float)
                            vals.append(np.percentile(arr, qq))
                    if np.isscalar(q):
                        what = _check_result(res, exp, vals, codec, kinds) or None
                    else:
                        dname = a_abs["dims"][i["spec"]["dims"][0] - 1] + "_percentile"
                        e2 = dict(exp, dims=[dname] + exp["dims"], labs=[qs] + exp["labs"], aattrs=[0] + exp["aattrs"])
                        k2 = dict(kinds)
                        k2[dname] = "i"
                        what = _check_result(res, e2, vals, codec, k2) or None
                if what:
                    viol.append(dict(what=what, sig=signature(scn, "percentile", "q=%s" % ("scalar" if np.isscalar(q) else "list")),
                                     variant="percentile q=%s" % (q,)))
    finally:
        np.seterr(**old)
    return dict(violations=viol, calls=calls)


# ---------------------------------------------------------------- code -> spec: the repository's own reduction tests, recorded
def post(tier, seed, ctx):
    """run the repository's tests and docstring examples (as drivers) under the recorder plugin and validate every recorded reduction call against the
    specification: structure (dims, labels, metadata) inside TLC, values from the fibres TLC prints, evaluated with NumPy"""
    import json
    import os
    import re
    import subprocess
    import sys
    from .. import tlc as T
    repo = os.environ.get("VERIF_REPO", "/repo")
    out = os.path.join(T.WORK, "C08_recorded.ndjson")
    for f in (out, out + ".stats"):
        if os.path.exists(f):
            os.remove(f)
    env = dict(os.environ, DIMARRAY_VERIF="1", VERIF_TRACE_OUT=out, PYTHONPATH=T.VERIF + os.pathsep + repo)
    subprocess.run([sys.executable, "-m", "pytest", "-q", "-p", "no:cacheprovider", "-p", "harness.pytest_recorder", "--continue-on-collection-errors",
                    "--doctest-modules", "--doctest-continue-on-failure", "dimarray", "tests"],
                   cwd=repo, env=env, stdout=subprocess.DEVNULL, stderr=subprocess.DEVNULL, timeout=900)
    if not os.path.exists(out):
        raise T.TLCError("the recorder produced no trace file")
    events = [json.loads(l) for l in open(out)]
    stats = json.load(open(out + ".stats"))
    if len(events) < 100:
        raise T.TLCError("only %d reduction calls recorded from the repository's tests" % len(events))
    # negative control: a recorded event whose logged dims are permuted must be rejected
    controls = []
    for e in events:
        if e["out"]["ok"] and len(e["out"]["val"]["dims"]) == 1:
            c = json.loads(json.dumps(e))
            c["id"] = -e["id"]
            c["out"]["val"]["dims"] = ["not_" + c["out"]["val"]["dims"][0]]
            controls.append(c)
            if len(controls) >= 10:
                break
    path = os.path.join(T.WORK, "C08_recorded_all.ndjson")
    with open(path, "w") as f:
        for e in events + controls:
            f.write(json.dumps({k: e[k] for k in ("id", "op", "in", "out")}) + "\n")
    cfg = os.path.join(T.WORK, "C08_ops.cfg")
    T.write_cfg(cfg, spec="TSpec")
    outp = os.path.join(T.WORK, "C08_ops.out")
    res = T.run_tlc("TraceOps", cfg, "C08_ops", env_extra={"TRACE_FILE": path}, keep_stdout=outp, timeout=1500)
    if "No error has been found" not in res["raw_tail"]:
        raise T.TLCError("TraceOps run failed: " + res["raw_tail"][-1500:])
    fibres, rej = {}, {}
    with open(outp) as f:
        for line in f:
            m = re.match(r'<<"F", (-?\d+), (".*")>>', line)
            if m:
                fibres[int(m.group(1))] = json.loads(json.loads(m.group(2)))
                continue
            m = re.match(r'<<"X", (-?\d+), "([^"]*)", (".*")>>', line)
            if m:
                rej[int(m.group(1))] = m.group(2)
    if any(c["id"] in fibres for c in controls):
        raise T.TLCError("a corrupted control event was accepted by TraceOps")
    ctx.states += res["distinct"]
    ctx.transitions += res["states"]
    ok = 0
    old = np.seterr(all="ignore")
    try:
        for e in events:
            what = None
            if e["id"] in rej:
                what = "recorded call %s(axis=%s, skipna=%s) of the repository's tests disagrees with the specification in clause '%s': logged %s" % (
                    e["in"]["func"], e["in"]["red"], e["in"]["skipna"], rej[e["id"]], json.dumps(e["out"])[:300])
            elif e["id"] not in fibres:
                raise T.TLCError("event %d was not judged" % e["id"])
            else:
                vals = [float(v) if not isinstance(v, bool) else v for v in e["input_values"]]
                func = e["in"]["func"]
                for term, got in zip(fibres[e["id"]], e["values"]):
                    fv = [vals[c - 1] if c > 0 else float("nan") for c in term["fib"]]
                    if term["nan"] and func not in ("all", "any"):
                        want = float("nan")
                    elif not fv:
                        want = _EMPTY.get(func, None if func in ("all", "any", "min", "max", "ptp") else float("nan"))
                    else:
                        want = getattr(np, func)(np.array(fv, dtype=float))
                    if not _close(want, float(got) if not isinstance(got, bool) else got):
                        what = "recorded call %s(axis=%s, skipna=%s): value %r, NumPy on the specification's fibre %s gives %r" % (
                            func, e["in"]["red"], e["in"]["skipna"], got, fv, want)
                        break
            if what:
                ctx.violations.append(dict(what=what, sig="recorded-test/reduce/%s/red=%s/skipna=%s" % (e["in"]["func"], e["in"]["red"], e["in"]["skipna"]),
                                           variant="recorded", scenario=dict(trace_event=e)))
            else:
                ok += 1
    finally:
        np.seterr(**old)
    ctx.traces += ok
    ctx.extra["trace_validation"] = dict(source="tests/ and the docstring examples of dimarray/ run under harness/pytest_recorder.py", calls_seen=stats["seen"],
                                         recorded=len(events), not_abstractable=stats["not_abstractable"], accepted=ok,
                                         corrupted_controls_rejected=len(controls))
