"""C17 - axis-wise selection and missing-value handling keep slices with their labels."""
import numpy as np

from .. import absarr as A

PROP = "C17"
RULE = ("every (shape, NaN pattern, dtype) x {sort_axis with and without key, take_axis by label / position, compress_axis masks, dropna with "
        "every minvalid, fillna, setna by scalar / list / mask} scenario enumerated by TLC from spec/MC_C17.tla, replayed with label kinds "
        "int / float / str, axis by name / position, key as callable / dict")
ASSUMPTIONS = ["sort keys are injective on the labels", "1-D dropna only with the default minvalid"]

FLOORS = {"op=sort_axis": (50, 50), "op=take_axis": (100, 100), "op=compress_axis": (50, 50), "op=dropna": (300, 300), "op=fillna": (100, 100),
          "op=setna": (200, 200), "key": (30, 30), "minvalid=0": (50, 50), "minvalid=size": (50, 50), "minvalid=default": (50, 50),
          "nan=wholeslice": (50, 50), "dtype=i": (100, 100), "setna-int-promote": (50, 50), "repeat-index": (20, 20)}


def tlc_jobs(tier, seed):
    return [dict(tag=tier, module="MC_C17",
                 cfg=dict(constants=dict(Big=(tier != "quick"), Emit=True),
                          invariants=["SlicesWithLabels", "SortedResult", "DropKeepsOrder", "FillExactly"]),
                 run=dict(timeout=3000))]


def classify(scn):
    i = scn["in"]
    a = i["a"]
    out = ["op=" + i["op"], "dtype=" + a["dtype"]]
    if i["haskey"]:
        out.append("key")
    if i["op"] == "dropna":
        size = 1
        for k, l in enumerate(a["labs"]):
            if k != i["d"] - 1:
                size *= len(l)
        if not i["minvalid"]:
            out.append("minvalid=default")
        elif i["minvalid"][0] == 0:
            out.append("minvalid=0")
        elif i["minvalid"][0] == size:
            out.append("minvalid=size")
        if len(scn["out"]["labs"][i["d"] - 1]) < len(a["labs"][i["d"] - 1]):
            out.append("nan=wholeslice")
    if i["op"] == "setna" and a["dtype"] == "i" and -1 in scn["out"]["cells"]:
        out.append("setna-int-promote")
    if i["op"] == "take_axis" and len(set(i["idx"])) < len(i["idx"]):
        out.append("repeat-index")
    return out


def signature(scn, variant):
    i = scn["in"]
    a = i["a"]
    nanc = "none" if all(c >= 0 for c in a["cells"]) else ("all" if all(c < 0 for c in a["cells"]) else "some")
    extra = ""
    if i["op"] == "dropna":
        extra = "/minvalid=%s" % (i["minvalid"][0] if i["minvalid"] else "default")
    if i["op"] == "take_axis":
        extra = "/mode=%s/idx=%s" % (i["mode"], "empty" if not i["idx"] else ("repeat" if len(set(i["idx"])) < len(i["idx"]) else "list"))
    if i["op"] == "setna":
        extra = "/form=%s" % i["form"]
    if i["op"] == "fillna":
        extra = "/fill=%s" % i["fkind"]
    if i["op"] == "sort_axis":
        extra = "/key=%s" % i["haskey"]
    return "%s/%s/shape=%s/d=%d/dtype=%s/nan=%s%s" % (i["op"], variant, "x".join(str(len(l)) for l in a["labs"]), i["d"], a["dtype"], nanc, extra)


def replay(scn):
    i = scn["in"]
    a_abs = i["a"]
    exp = scn["out"]
    op = i["op"]
    viol, calls = [], 0
    d = i["d"] - 1
    for kind, off in (("i", 0), ("f", 0), ("s", 0), ("i", -4), ("u", 0), ("f", 2000000)):
        codec = A.LabelCodec(offset=off)        # the shifted variant has labels 0 and negative labels
        kinds = [kind] * len(a_abs["dims"])
        for form in (0, 1, 2):
            a = A.gamma(a_abs, codec, kinds)
            before = A.snapshot(a)
            if form == 2 and (not i["d"] or op in ("fillna", "setna")):
                continue
            ax = (a_abs["dims"][d] if form == 0 else (d if form == 1 else d - a.ndim)) if i["d"] else None
            variant = "kind=%s form=%d" % (kind, form)
            calls += 1
            what = None
            try:
                if op == "sort_axis":
                    if i["haskey"]:
                        L = a.axes[d].values.tolist()
                        table = {lab: kv for lab, kv in zip(L, i["keyvals"])}
                        key = (lambda x: table[x]) if form == 0 else table
                        res = a.sort_axis(axis=ax, key=key)
                    else:
                        res = a.sort_axis(axis=ax)
                elif op == "take_axis":
                    if i["mode"] == "label":
                        idx = [a.axes[d].values[p - 1] for p in i["idx"]]
                        if form == 1:
                            idx = np.array(idx, dtype=a.axes[d].values.dtype)
                        res = a.take_axis(idx, axis=ax, indexing="label")
                    else:
                        idx = [p - 1 for p in i["idx"]]
                        if form == 1:
                            idx = np.array(idx, dtype=int)
                        elif form == 2:
                            idx = [p - a.shape[d] for p in idx]        # the same positions counted from the end
                        res = a.take_axis(idx, axis=ax, indexing="position")
                elif op == "compress_axis":
                    m = np.array(i["mask"], dtype=bool)
                    res = a.compress_axis(m if form == 0 else list(m), axis=ax)
                elif op == "dropna":
                    kw = {}
                    if i["minvalid"]:
                        kw["minvalid"] = i["minvalid"][0]
                    if form == 1:
                        kw["na"] = float("nan")         # the missing-value marker given explicitly, as a NaN that is not the object np.nan
                    res = a.dropna(axis=ax, **kw)
                    if form == 0 and a.dtype.kind == "f":
                        # the valid cells replaced by infinities of both signs: infinite is not missing, the same labels stay
                        a2 = a.copy()
                        flat = [k for k in range(a2.size)]
                        for k in flat:
                            ix = np.unravel_index(k, a2.shape)
                            if a2.values[ix] == a2.values[ix]:
                                a2.values[ix] = np.inf if k % 2 else -np.inf
                        r2 = a2.dropna(axis=ax, **kw)
                        if r2.axes[d].values.tolist() != res.axes[d].values.tolist():
                            what = "dropna on data with +inf / -inf keeps labels %s, on the same NaN pattern with finite data %s" % (
                                r2.axes[d].values.tolist(), res.axes[d].values.tolist())
                elif op == "fillna":
                    v = A.cell_enc(888, i["fkind"]) if off == 0 else (0 if i["fkind"] == "i" else 0.0)      # falsy fill value
                    if form == 0:
                        res = a.fillna(v)
                    elif form == 1 and kind == "f":
                        res = a.fillna(v, na=np.float64("nan"))       # explicit marker (a NaN object other than np.nan)
                    else:
                        r = a.fillna(v, inplace=True)
                        res = a
                        before = A.snapshot(a)
                elif op == "setna":
                    dt = a_abs["dtype"]
                    if i["form"] == "scalar":
                        v = A.cell_enc(i["vals"][0], dt)
                    elif i["form"] == "list":
                        v = [A.cell_enc(x, dt) for x in i["vals"]]
                    elif i["form"] == "masklist":
                        m0 = np.array([c == i["vals"][0] for c in a_abs["cells"]], dtype=bool).reshape(a.shape)
                        if form == 1:
                            m0 = A.DimArray(m0, axes=[x.copy() for x in a.axes])
                        v = [m0, A.cell_enc(i["vals"][1], dt)]
                    else:
                        v = np.array([c in i["vals"] for c in a_abs["cells"]], dtype=bool).reshape(a.shape)
                    vrepr = repr(v)
                    if form == 0:
                        res = a.setna(v)
                    else:
                        a.setna(v, inplace=True)
                        res = a
                        before = A.snapshot(a)
                    if repr(v) != vrepr:
                        what = "setna modified its argument (the mask / values passed to it): %s -> %s" % (vrepr[:120], repr(v)[:120])
                else:
                    raise ValueError(op)
            except Exception as e:  # noqa
                what = "raised %s: %s" % (type(e).__name__, str(e)[:200])
            if what is None and A.snapshot(a) != before:
                what = "operand modified"
            if what is None:
                try:
                    act = A.project(res, codec)
                    e = dict(exp, kinds=kinds)
                    if op == "fillna" and off != 0:
                        e = dict(e, cells=[0 if c == 888 else c for c in e["cells"]])
                    what = A.compare(e, act, dtype_any=[exp["dtype"]] + (["f"] if op in ("fillna", "setna") else [])) or None
                except A.Unprojectable as ex:
                    what = "result not projectable: %s" % ex
            if what is None and form == 0 and kind in ("i", "s") and off == 0 and op in ("fillna", "setna"):
                what = _value_range_variants(i, a_abs, a, op, exp)
                calls += 2
            if what:
                viol.append(dict(what=what, sig=signature(scn, "kind=%s%s/form=%d" % (kind, ("@%d" % off) if off else "", form)), variant=variant))
    return dict(violations=viol, calls=calls)


def _value_range_variants(i, a_abs, a, op, exp):
    """the same call on data of another magnitude: valid cells that are infinite (fillna), integers beyond 2**24 (setna).
    Only the cells the specification marks (filled / set to missing) may change; every other cell is kept exactly."""
    try:
        if op == "fillna" and a.dtype.kind == "f":
            a2 = a.copy()
            flat = a2.values.reshape(-1) if a2.values.flags.c_contiguous else None
            want = []
            for k in range(a2.size):
                ix = np.unravel_index(k, a2.shape)
                if a2.values[ix] == a2.values[ix]:
                    a2.values[ix] = np.inf if k % 2 else -np.inf
                    want.append(a2.values[ix])
                else:
                    want.append(5.5)
            got = a2.fillna(5.5).values.ravel().tolist()
            if got != [float(x) for x in want]:
                return "fillna on data with +inf / -inf: expected %s got %s" % (want[:8], got[:8])
        if op == "setna" and a.dtype.kind == "i":
            BIG = 20200100        # cells are odd: the sums are odd numbers beyond 2**24, which a 32-bit float cannot hold
            a2 = a.copy()
            a2.values[...] += BIG
            dt = a_abs["dtype"]
            if i["form"] == "scalar":
                v = A.cell_enc(i["vals"][0], dt) + BIG
            elif i["form"] == "list":
                v = [A.cell_enc(x, dt) + BIG for x in i["vals"]]
            elif i["form"] == "masklist":
                m0 = np.array([c == i["vals"][0] for c in a_abs["cells"]], dtype=bool).reshape(a.shape)
                v = [m0, A.cell_enc(i["vals"][1], dt) + BIG]
            else:
                v = np.array([c in i["vals"] for c in a_abs["cells"]], dtype=bool).reshape(a.shape)
            got = a2.setna(v).values.ravel().tolist()
            want = [float("nan") if c == -1 else float(A.cell_enc(c, dt) + BIG) for c in exp["cells"]]
            if len(got) != len(want) or any(not (float(x) == y or (x != x and y != y)) for x, y in zip(got, want)):
                return "setna on integers around %d: expected %s got %s" % (BIG, want[:8], got[:8])
    except Exception as e:  # noqa
        return "value-range variant raised %s: %s" % (type(e).__name__, str(e)[:200])
    return None
