"""C20 - on-disk netCDF access is equivalent to in-memory access."""
import os
import shutil
import tempfile

import numpy as np

from .. import absarr as A
from .. import ncabs as N
from .. import tlc as T
from ..indexing import index_tuple

PROP = "C20"
RULE = ("every (variable, index tuple, mode, tolerance) read, every single and double on-disk assignment, every unlimited-dimension append history "
        "and every multi-file configuration enumerated by TLC from spec/MC_C20.tla, executed through open_nc / read_nc against the netCDF4 "
        "stand-in and compared with the specification's Take / Put of the loaded array (and with the in-memory result of the same index)")
ASSUMPTIONS = ["netCDF4 is replaced by harness/ncstub (API contract)", "files are produced by write_nc (decided by C19)",
               "list indices have no repeats in assignments"]

FLOORS = {"fam=read": (400, 400), "fam=assign": (500, 500), "fam=append": (20, 20), "fam=multi": (30, 30), "fam=zerod": (20, 20), "fam=dsread": (30, 30), "mode=position": (300, 300),
          "expect=IndexError": (50, 50), "tol": (30, 30), "assign-tol": (30, 30), "two-assignments": (5, 5), "0d": (2, 2), "str-labels": (100, 100)}

PROFILES = ("always_mask", "mask_if_missing")


def tlc_jobs(tier, seed):
    return [dict(tag=tier, module="MC_C20", cfg=dict(constants=dict(Emit=True, Deep=(tier != "quick")), invariants=["Sane"]), run=dict(timeout=3000))]


def classify(scn):
    i = scn["in"]
    out = ["fam=" + i["fam"]]
    if i["fam"] in ("read", "assign"):
        out.append("mode=" + i["mode"])
        if not scn["out"]["ok"]:
            out.append("expect=" + scn["out"]["err"])
        if i["tol"]:
            out.append("tol")
            if i["fam"] == "assign":
                out.append("assign-tol")
        if i["two"]:
            out.append("two-assignments")
        if not i["cfg"]["dims"]:
            out.append("0d")
        if "s" in i["cfg"]["kinds"]:
            out.append("str-labels")
    return out


def _idxcls(idxs):
    return ",".join(ix["k"] + (":empty" if ix["k"] == "li" and not ix["l"] else "") for ix in idxs) or "-"


def signature(scn, variant, kind):
    i = scn["in"]
    if i["fam"] == "dsread":
        return "ondisk/dsread/%s/%s" % (variant, kind)
    if i["fam"] in ("read", "assign"):
        return "ondisk/%s/%s/var=%s/mode=%s/idx=%s/tol=%s/%s" % (i["fam"], variant, i["v"], i["mode"], _idxcls(i["idxs"]), bool(i["tol"]), kind)
    if i["fam"] == "append":
        return "ondisk/append/%s/n0=%d/nd=%d/steps=%s/labels=%s/%s" % (variant, i["n0"], i["nd"], "+".join(map(str, i["steps"])), i["mode"], kind)
    c = i["cfg"]
    return "ondisk/multi/%s/nf=%d/rel=%s/axis=%s/align=%s/sort=%s/keys=%s%s/%s" % (variant, c["nf"], c["rel"], c["axis"], c["align"], c["sort"], c["keys"],
                                                                                   c.get("rekey", ""), kind)


def _write_file(fn, name, arr_abs, codec):
    a = N.gamma(arr_abs, codec)
    ds = A.Dataset()
    ds["aa_first"] = A.DimArray([1., 2.], axes=[("q", [1, 2])])        # written first: the file's leading dimension is not the variable's
    ds[name] = a
    if a.ndim:
        ds["companion"] = a.take({a.dims[0]: a.axes[0].values[0]}) if a.ndim > 1 else a * 1
    ds.write_nc(fn, mode="w")
    return a


def _conc_rhs(rhs, dtype):
    vals = [A.cell_enc(c, dtype) for c in rhs["cells"]]
    if rhs["shape"] == []:
        return vals[0]
    return np.array(vals, dtype=N.NP_DTYPE[dtype]).reshape(rhs["shape"])


def _replay_read(scn, fn, codec, profile):
    i = scn["in"]
    exp = scn["out"]
    arr = i["cfg"]
    name = i["v"]
    viol, calls = [], 0
    mem = _write_file(fn, name, arr, codec)
    kinds = arr["kinds"]
    tol = codec.tol(i["tol"][0], kinds[0]) if i["tol"] else None
    dims = arr["dims"]
    nonall = [k for k, ix in enumerate(i["idxs"]) if ix["k"] != "all"]
    spellings = ["getitem", "read_method", "read_nc", "read_nc_dict"]
    if not i["tol"]:
        spellings += (["loc", "sel", "opt_ix", "opt_loc"] if i["mode"] == "label" else ["ix", "iloc", "isel", "opt_getitem", "opt_iloc"])
    for si, sp in enumerate(spellings):
        tup = index_tuple(i["idxs"], kinds, codec, i["mode"], si % 2)
        d = {dims[k]: tup[k] for k in nonall}
        calls += 1
        err = res = None
        h = None
        prev_opt = None
        try:
            if sp.startswith("opt_"):        # the handle is opened and used while indexing.by is 'position' (set long after the import)
                prev_opt = A.da.get_option("indexing.by")
                A.da.set_option("indexing.by", "position")
            kw = dict(indexing=i["mode"])
            if tol is not None:
                kw["tol"] = tol
            if sp == "read_nc":
                res = A.da.read_nc(fn, name, indices=tup, **kw)
            elif sp == "read_nc_dict":
                res = A.da.read_nc(fn, name, indices=d, **kw)
            else:
                h = A.da.open_nc(fn)
                v = h[name]
                t1 = tup if len(tup) != 1 else tup[0]
                if sp == "getitem":
                    res = v[t1] if (i["mode"] == "label" and tol is None) else v.read(indices=tup, **kw)
                elif sp == "read_method":
                    res = v.read(indices=d, **kw)
                elif sp == "loc":
                    res = v.loc[t1]
                elif sp == "ix":
                    res = v.ix[t1]
                elif sp == "iloc":
                    res = v.iloc[t1]
                elif sp == "sel":
                    res = v.sel(**d)
                elif sp == "isel":
                    res = v.isel(**d)
                elif sp == "opt_getitem":     # default access follows the option: positions
                    res = v[t1]
                elif sp == "opt_iloc":
                    res = v.iloc[t1]
                elif sp == "opt_ix":          # .ix toggles: labels under indexing.by = position
                    res = v.ix[t1]
                elif sp == "opt_loc":
                    res = v.loc[t1]
        except Exception as e:  # noqa
            err = e
        finally:
            if h is not None:
                h.close()
            if prev_opt is not None:
                A.da.set_option("indexing.by", prev_opt)
        what = kind = None
        if exp["ok"]:
            if err is not None:
                what, kind = "expected a result, got %s: %s" % (type(err).__name__, str(err)[:200]), "raised:" + type(err).__name__
            else:
                try:
                    act = N.project(res, codec)
                    what = N.compare(exp["val"], act, check_attrs=False) or None
                    kind = "differs-from-spec"
                except A.Unprojectable as ex:
                    what, kind = "result not projectable: %s" % ex, "unprojectable"
                if what is None:
                    # the same index on the fully loaded array
                    try:
                        full = A.da.read_nc(fn, name)
                        ref = full.take(tup, indexing=i["mode"], tol=tol) if isinstance(full, A.DimArray) else full
                        pa, pr = N.project(res, codec), N.project(ref, codec)
                        if (pa["dims"], pa["labs"], pa["cells"]) != (pr["dims"], pr["labs"], pr["cells"]):
                            what, kind = "on-disk read differs from the same index on the loaded array: %s vs %s" % (pa, pr), "differs-from-memory"
                    except Exception as ex:  # noqa
                        what, kind = "in-memory reference raised %s: %s" % (type(ex).__name__, str(ex)[:150]), "memory-raised"
        else:
            if err is None:
                what, kind = "expected %s, got a result" % exp["err"], "no-error"
            elif not isinstance(err, IndexError):
                what, kind = "expected %s, got %s: %s" % (exp["err"], type(err).__name__, str(err)[:200]), "wrong-exception:" + type(err).__name__
        if what:
            viol.append(dict(what=what, sig=signature(scn, sp + "/" + profile, kind), variant=sp + " " + profile))
    return viol, calls


def _replay_dsread(scn, fn, codec, profile):
    """dataset-level on-disk reads with an index on one dimension; the file holds a(x,y) and its transpose t(y,x)"""
    i = scn["in"]
    exp = scn["out"]
    arr = i["cfg"]
    viol, calls = [], 0
    a = N.gamma(arr, codec)
    ds = A.Dataset()
    ds["a"] = a
    ds["t"] = a.T
    ds.write_nc(fn, mode="w")
    d = i["nd"] - 1
    dim = arr["dims"][d]
    from ..indexing import conc_index
    ix = conc_index(i["idxs"][0], arr["kinds"][d], codec, i["mode"], 0)
    for sp in ("read_nc", "open_read", "accessor"):
        calls += 1
        err = res = None
        h = None
        try:
            if sp == "read_nc":
                res = A.da.read_nc(fn, indices={dim: ix}, indexing=i["mode"])
            else:
                h = A.da.open_nc(fn)
                if sp == "open_read":
                    res = h.read(indices={dim: ix}, indexing=i["mode"])
                else:
                    res = h.sel(**{dim: ix}) if i["mode"] == "label" else h.isel(**{dim: ix})
        except Exception as e:  # noqa
            err = e
        finally:
            if h is not None:
                h.close()
        what = kind = None
        if exp["ok"]:
            if err is not None:
                what, kind = "expected a result, got %s: %s" % (type(err).__name__, str(err)[:200]), "raised:" + type(err).__name__
            else:
                try:
                    pa = N.project(res["a"], codec)
                    what = N.compare(exp["val"], pa, check_attrs=False) or None
                    kind = "differs-from-spec"
                    if what is None:
                        # the transposed variable must hold the same cells at the same label coordinates
                        pt = N.project(res["t"].T if isinstance(res["t"], A.DimArray) and res["t"].ndim == 2 else res["t"], codec)
                        if (pt["labs"], pt["cells"]) != (pa["labs"], pa["cells"]):
                            what, kind = "variable t(y,x) read through the dataset differs from a(x,y): %s vs %s" % (pt, pa), "transposed-variable"
                except A.Unprojectable as ex:
                    what, kind = "result not projectable: %s" % ex, "unprojectable"
        else:
            if err is None:
                what, kind = "expected %s, got a result" % exp["err"], "no-error"
            elif not isinstance(err, IndexError):
                what, kind = "expected %s, got %s: %s" % (exp["err"], type(err).__name__, str(err)[:200]), "wrong-exception:" + type(err).__name__
        if what:
            viol.append(dict(what=what, sig="ondisk/dsread/%s/%s/dim=%s/mode=%s/idx=%s/%s" % (sp, profile, dim, i["mode"], _idxcls(i["idxs"]), kind), variant=sp + " " + profile))
    return viol, calls


def _replay_assign(scn, fn, codec, profile):
    i = scn["in"]
    exp = scn["out"]
    arr = i["cfg"]
    name = i["v"]
    viol, calls = [], 0
    kinds = arr["kinds"]
    dt = "i" if arr["dtype"] == "j" else arr["dtype"]
    tol = codec.tol(i["tol"][0], kinds[0]) if i["tol"] else None
    sps = ["setitem", "put"] if i["mode"] == "label" else ["ix", "put"]
    if tol is not None:
        sps = ["put"] + (["nloc"] if tol == np.inf else [])
    elif i["rhs"]["shape"] and not i["two"] and exp["ok"]:
        sps = sps + ["da_rhs"]          # the value given as a DimArray carrying the selected labels in reverse order: still positional
    for sp in sps:
        _write_file(fn, name, arr, codec)
        calls += 1
        err = None
        try:
            with A.da.open_nc(fn, "a") as h:
                v = h[name]
                steps = [(i["idxs"], i["mode"], i["rhs"])]
                if i["two"]:
                    steps.append((i["idxs2"], "position", i["rhs2"]))
                for idxs, mode, rhs in steps:
                    tup = index_tuple(idxs, kinds, codec, mode, 0)
                    t1 = tup if len(tup) != 1 else tup[0]
                    val = _conc_rhs(rhs, dt)
                    if sp == "da_rhs":
                        sel = A.da.read_nc(fn, name).take(tup, indexing=mode)
                        if isinstance(sel, A.DimArray) and np.shape(val) == sel.shape and sel.ndim:
                            val = A.DimArray(val, axes=[A.Axis(ax.values[::-1], ax.name) for ax in sel.axes])
                    if sp == "nloc":
                        v.nloc[t1] = val
                    elif sp == "put" or (mode == "position" and sp not in ("ix", "da_rhs")):
                        if tol is not None and mode == "label":
                            v.write(tup, val, indexing=mode, tol=tol)
                        else:
                            v.write(tup, val, indexing=mode)
                    elif mode == "label":
                        import warnings
                        with warnings.catch_warnings():
                            warnings.simplefilter("ignore")
                            v[t1] = val
                    else:
                        import warnings
                        with warnings.catch_warnings():
                            warnings.simplefilter("ignore")
                            v.ix[t1] = val
        except Exception as e:  # noqa
            err = e
        what = kind = None
        if exp["ok"]:
            if err is not None:
                what, kind = "expected success, got %s: %s" % (type(err).__name__, str(err)[:200]), "raised:" + type(err).__name__
            else:
                try:
                    act = N.project(A.da.read_nc(fn, name), codec)
                    what = N.compare(exp["val"], act, check_attrs=False) or None
                    kind = "differs-from-spec"
                except A.Unprojectable as ex:
                    what, kind = "variable not projectable after the assignment: %s" % ex, "unprojectable"
        else:
            if err is None:
                what, kind = "expected %s, assignment succeeded" % exp["err"], "no-error"
            elif not isinstance(err, IndexError):
                what, kind = "expected %s, got %s: %s" % (exp["err"], type(err).__name__, str(err)[:200]), "wrong-exception:" + type(err).__name__
        if what:
            viol.append(dict(what=what, sig=signature(scn, sp + "/" + profile, kind), variant=sp + " " + profile))
    return viol, calls


def _replay_append(scn, fn, codec, profile):
    i = scn["in"]
    exp = scn["out"]["val"]
    kind_t = i["mode"]
    nd = i["nd"]
    tl = exp["labs"][0]
    cells = np.array([A.cell_enc(c, "f") for c in exp["cells"]]).reshape([len(l) for l in exp["labs"]])
    xl = codec.enc_seq(exp["labs"][1], "i") if nd == 2 else None

    def slab(lo, hi):
        axes = [A.Axis(codec.enc_seq(tl[lo:hi], kind_t), "t")]
        if nd == 2:
            axes.append(A.Axis(xl, "x"))
        return A.DimArray(cells[lo:hi], axes=axes)
    what = kind = None
    calls = 1
    try:
        ds = A.da.open_nc(fn, "w")
        ds.axes.append("t", None)
        if nd == 2:
            ds.axes.append(A.Axis(xl, "x"))
        pos = i["n0"]
        if pos:
            ds["u"] = slab(0, pos)
        first = pos == 0
        for k in i["steps"]:
            piece = slab(pos, pos + k)
            if not first and pos:
                # a label look-up through the handle before the append (whatever it remembers must not outlive the append)
                lab0 = codec.enc(tl[0], kind_t)
                ds["u"].read(indices={"t": lab0})
            if first:
                ds["u"] = piece
                first = False
            elif k == 1:
                ds["u"].ix[pos] = piece
            else:
                ds["u"].ix[pos:pos + k] = piece
            pos += k
            calls += 1
            # ... and the labels just appended are found through the same handle
            lab_new = codec.enc(tl[pos - 1], kind_t)
            got = ds["u"].read(indices={"t": lab_new})
            want = cells[pos - 1]
            if not np.allclose(np.asarray(got.values if hasattr(got, "values") else got, dtype=float), np.asarray(want, dtype=float), equal_nan=True):
                raise AssertionError("label %r appended through the open handle reads %r, expected %r" % (lab_new, got, want))
        live = N.project(ds["u"].read(), codec)
        ds.close()
        act = N.project(A.da.read_nc(fn, "u"), codec)
        what = N.compare(exp, act, check_attrs=False) or None
        kind = "differs-from-spec"
        if what is None and (live["labs"], live["cells"]) != (act["labs"], act["cells"]):
            what, kind = "read through the open handle differs from read_nc after close", "handle-vs-file"
    except A.Unprojectable as ex:
        what, kind = "not projectable: %s" % ex, "unprojectable"
    except Exception as e:  # noqa
        what, kind = "raised %s: %s" % (type(e).__name__, str(e)[:200]), "raised:" + type(e).__name__
    viol = [dict(what=what, sig=signature(scn, profile, kind), variant=profile)] if what else []
    return viol, calls


def _replay_multi(scn, tmp, codec, profile):
    c = scn["in"]["cfg"]
    exp = scn["out"]
    xs = [[4, 2, 6], [4, 2, 6], [4, 2, 6]] if c["rel"] == "equal" else [[4, 2, 6], [2, 6, 8], [6, 4, 2]]
    if c["rel"] == "pieces":
        xs = [[8, 2], [6, 12], [10, 4]]          # consecutive pieces of one axis, listed in no particular order
    fns = []
    for k in range(c["nf"]):
        a = dict(dims=["x", "y"], kinds=["i", "f"], labs=[xs[k], [3, 7]], aattrs=[0, 0], dtype="f", attrs=0,
                 cells=[100 * (k + 1) + j for j in range(1, 2 * len(xs[k]) + 1)])
        # the list of files is given in an order that is not the lexicographic one (under one of the two profiles)
        fn = os.path.join(tmp, ("m_%s.nc" % "zam"[k]) if profile == PROFILES[0] else ("m%d.nc" % k))
        ds = A.Dataset()
        ds["a"] = N.gamma(a, codec)
        ds["n"] = N.gamma(dict(a, dtype="i"), codec)
        if c.get("rekey") == "dropx-names":
            ds["yonly"] = ds["a"].ix[0] * (k + 2)        # a variable without x
        ds.write_nc(fn)
        fns.append(fn)
    kw = dict(align=c["align"], sort=c["sort"])
    keys = [10, 20, 30][:c["nf"]] if c["keys"] else None
    dropx = c.get("rekey", "").startswith("dropx")
    rkw = {}
    if dropx:
        keys = [10, 20, 30][:c["nf"]]
        rkw = dict(indices={"x": codec.enc(2, "i")}) if c["rekey"] == "dropx-index" else dict(names=["yonly"])
    if c.get("rekey") and not dropx:
        allx = [codec.enc(h, "i") for k in range(c["nf"]) for h in xs[k]]
        keys = {"sorted": sorted(allx), "reversed": sorted(allx, reverse=True), "subset": sorted(allx)[1:-1][::-1],
                "extra": sorted(allx) + [codec.enc(99, "i")]}[c["rekey"]]
    what = kind = None
    err = res = None
    given = list(fns)
    try:
        axis = "k" if c["axis"] == "new" else c["axis"]
        if dropx:
            res = A.da.read_nc(fns, axis=axis, keys=keys, **rkw)
        else:
            res = A.da.read_nc(fns, axis=axis, keys=keys, **kw) if keys else A.da.read_nc(fns, axis=axis, **kw)
    except Exception as e:  # noqa
        err = e
    if fns != given:
        fns = given
        what, kind = "read_nc reordered the caller's list of file names", "argument-modified"
    if what:
        pass
    elif not exp["ok"]:
        if err is None:
            what, kind = "expected ValueError (files differ on the other axes, align=False), got a result", "no-error"
        elif not isinstance(err, (ValueError, AssertionError)):
            what, kind = "expected ValueError, got %s: %s" % (type(err).__name__, str(err)[:200]), "wrong-exception:" + type(err).__name__
    elif err is not None:
        what, kind = "raised %s: %s" % (type(err).__name__, str(err)[:200]), "raised:" + type(err).__name__
    else:
        singles = [A.da.read_nc(f, **rkw) for f in fns]
        try:
            if dropx:
                ref = A.da.stack_ds(singles, axis="x", keys=keys)
            elif c["axis"] == "new":
                ref = A.da.stack_ds(singles, axis="k", keys=keys if keys else [os.path.splitext(f)[0] for f in fns], **kw)
            else:
                ref = A.da.concatenate_ds(singles, axis=c["axis"], **kw)
                if c.get("rekey") and not dropx:
                    ref = ref.reindex_axis(keys, axis=c["axis"])
            from .c14 import _same
            if list(res.keys()) != list(ref.keys()):
                what, kind = "variables %s vs %s" % (list(res.keys()), list(ref.keys())), "keys"
            else:
                for k in ref.keys():
                    w = _same(res[k], ref[k])
                    if w:
                        what, kind = "variable %s: reading the files at once differs from joining the single reads: %s" % (k, w), "differs"
                        break
        except Exception as e:  # noqa
            what, kind = "reference join raised %s: %s" % (type(e).__name__, str(e)[:200]), "reference-raised"
    viol = [dict(what=what, sig=signature(scn, profile, kind), variant=profile)] if what else []
    return viol, 1


def _replay_zerod(scn, fn, codec, profile):
    i = scn["in"]
    exp = scn["out"]
    ds = A.Dataset()
    ds["s"] = A.DimArray(5.25)
    ds["v"] = A.DimArray([1.25, 2.25], axes=[("x", [10, 20])])
    ds.write_nc(fn)
    idx = {"sc": 0 if i["mode"] == "position" else 10, "li": [0], "sl": slice(0, 1), "str": "a", "dict": {"x": 10 if i["mode"] == "label" else 0},
           "two": (0, 0), "empty": ()}[i["v"]]
    what = kind = None
    err = got = None
    try:
        if i["two"]:      # assignment through the handle
            with A.da.open_nc(fn, "a") as h:
                (h["s"].ix if i["mode"] == "position" else h["s"])[idx] = 9.25
        else:
            with A.da.open_nc(fn) as h:
                got = (h["s"].ix if i["mode"] == "position" else h["s"])[idx]
    except Exception as e:  # noqa
        err = e
    after = float(A.da.read_nc(fn)["s"].values)
    other = A.da.read_nc(fn)["v"].values.tolist()
    if exp["ok"]:
        if err is not None:
            what, kind = "the empty index on a 0-d variable raised %s: %s" % (type(err).__name__, str(err)[:150]), "raised"
        elif i["two"] and after != 9.25:
            what, kind = "assignment to the 0-d variable not stored: %r" % after, "not-stored"
        elif not i["two"] and float(np.asarray(got.values if hasattr(got, "values") else got)) != 5.25:
            what, kind = "read of the 0-d variable returned %r" % (got,), "value"
    else:
        if err is None:
            what, kind = ("an index (%r) on a 0-d variable on disk was accepted%s; the loaded array rejects it"
                          % (idx, (" and overwrote the value with %r" % after) if i["two"] else (" and returned %r" % (got,)))), "accepted"
        elif not isinstance(err, (IndexError, ValueError, KeyError)):
            what, kind = "expected IndexError / ValueError, got %s: %s" % (type(err).__name__, str(err)[:150]), "wrong-exception"
        elif after != 5.25:
            what, kind = "a rejected assignment changed the 0-d variable in the file to %r" % after, "changed"
    if what is None and other != [1.25, 2.25]:
        what, kind = "another variable of the file changed: %s" % other, "other-changed"
    viol = [dict(what=what, sig="ondisk/zerod/%s/%s/write=%s/%s/%s" % (profile, i["v"], i["two"], i["mode"], kind), variant=profile)] if what else []
    return viol, 1


def replay(scn):
    fam = scn["in"]["fam"]
    viol, calls = [], 0
    for profile in PROFILES:
        os.environ["NCSTUB_PROFILE"] = profile
        codec = A.LabelCodec()
        tmp = tempfile.mkdtemp(prefix="nc20_", dir=T.WORK)
        fn = os.path.join(tmp, "f.nc")
        try:
            if fam == "read":
                v, c = _replay_read(scn, fn, codec, profile)
            elif fam == "assign":
                v, c = _replay_assign(scn, fn, codec, profile)
            elif fam == "dsread":
                v, c = _replay_dsread(scn, fn, codec, profile)
            elif fam == "append":
                v, c = _replay_append(scn, fn, codec, profile)
            elif fam == "zerod":
                v, c = _replay_zerod(scn, fn, codec, profile)
            else:
                v, c = _replay_multi(scn, tmp, codec, profile)
            viol += v
            calls += c
        finally:
            shutil.rmtree(tmp, ignore_errors=True)
    return dict(violations=viol, calls=calls)
