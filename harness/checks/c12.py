"""C12 - stack and concatenate join arrays without misaligning them."""
import numpy as np

from .. import absarr as A
from .c06 import normalise_free

PROP = "C12"
RULE = ("every list of 1-2 (thorough 1-3) arrays over {x} or {x,y} with the dims of later inputs in the same or the swapped order (square "
        "shapes included), secondary labels equal / permuted / overlapping / disjoint, x {stack, concatenate along each dim} x align x sort, "
        "enumerated by TLC from spec/MC_C12.tla; replayed with list / tuple / dict containers, int / str / default keys, axis by name / position")
ASSUMPTIONS = ["when only the order of the dimensions differs between inputs both the by-name result and ValueError are accepted",
               "label order of aligned axes compared only where C06 fixes it"]

FLOORS = {"op=stack": (300, 300), "op=concatenate": (300, 300), "align=True": (300, 300), "sort=True": (100, 100), "expect=ValueError": (100, 100),
          "dims-order-differs": (200, 200), "square": (50, 50), "n=1": (10, 10), "n=3": (100, 100), "3d": (50, 50), "rel=permuted": (50, 50), "rel=disjoint": (50, 50)}


def tlc_jobs(tier, seed):
    return [dict(tag=tier, module="MC_C12",
                 cfg=dict(constants=dict(MaxArr=(2 if tier == "quick" else 3), Emit=True),
                          invariants=["StackSound", "ConcatSound", "RefuseIffMismatch"]),
                 run=dict(timeout=3000))]


def _rel(i):
    arrs = i["arrs"]
    if len(arrs) < 2:
        return "single"
    rels = set()
    a0 = arrs[0]
    for b in arrs[1:]:
        for d in a0["dims"]:
            la, lb = a0["labs"][a0["dims"].index(d)], b["labs"][b["dims"].index(d)]
            if la == lb:
                rels.add("equal")
            elif set(la) == set(lb):
                rels.add("permuted")
            elif not set(la) & set(lb):
                rels.add("disjoint")
            else:
                rels.add("overlap")
    return "+".join(sorted(rels))


def classify(scn):
    i = scn["in"]
    out = ["op=" + i["op"], "align=%s" % i["align"], "sort=%s" % i["sort"], "n=%d" % len(i["arrs"]),
           "expect=" + ("ok" if scn["out"]["ok"] else scn["out"]["err"])]
    if any(a["dims"] != i["arrs"][0]["dims"] for a in i["arrs"]):
        out.append("dims-order-differs")
    if len(i["arrs"][0]["dims"]) == 3:
        out.append("3d")
    if any(len(a["labs"]) == 2 and len(a["labs"][0]) == len(a["labs"][1]) for a in i["arrs"]):
        out.append("square")
    for r in _rel(i).split("+"):
        out.append("rel=" + r)
    return out


def signature(scn, variant):
    i = scn["in"]
    return "%s/%s/n=%d/dims=%s/align=%s/sort=%s/d=%s/rel=%s/shapes=%s/expect=%s" % (
        i["op"], variant, len(i["arrs"]), "|".join(",".join(a["dims"]) for a in i["arrs"]), i["align"], i["sort"], i["d"] or "-", _rel(i),
        "|".join("x".join(str(len(l)) for l in a["labs"]) for a in i["arrs"]), "ok" if scn["out"]["ok"] else scn["out"]["err"])


def replay(scn):
    i = scn["in"]
    exp = scn["out"]
    viol, calls = [], 0
    n = len(i["arrs"])
    if i["op"] == "stack":
        forms = [("list", "i"), ("tuple", "s"), ("dict", "i"), ("dict", "s"), ("list", "default"), ("dict+keys", "s"), ("dict+keys", "i")]
    else:
        forms = [("list", "name"), ("tuple", "pos"), ("list", "negpos")]
    for lk in ("i", "s", "f@big", "u"):          # u: unsigned integer labels (uint16)
        # f@big: float labels around 1e6 spaced by 0.5 (equal only if exactly equal); 20200101-like magnitudes
        codec = A.LabelCodec(offset=(2000000 if lk == "f@big" else 0))
        for cont, kk in forms:
            if lk == "f@big" and kk in ("i", "default"):
                continue        # (integer keys would be decoded with the float labels' offset)
            objs = [A.gamma(a, codec, [lk[0]] * len(a["dims"])) for a in i["arrs"]]
            before = [A.snapshot(o) for o in objs]
            variant = "%s/%s/%s" % (lk, cont, kk)
            calls += 1
            err = res = None
            try:
                kw = dict(align=i["align"])
                if i["sort"]:
                    kw["sort"] = True
                if i["op"] == "stack":
                    keys = None if kk == "default" else [codec.enc(h, kk) for h in i["keys"]]
                    if cont == "dict":
                        res = A.da.stack(dict(zip(keys, objs)), axis=i["newdim"], **kw)
                    elif cont == "dict+keys":
                        # a dict filled in another order, with the keys listed explicitly: the slice at key k is the entry k
                        res = A.da.stack(dict(reversed(list(zip(keys, objs)))), axis=i["newdim"], keys=keys, **kw)
                    else:
                        seq = objs if cont == "list" else tuple(objs)
                        res = A.da.stack(seq, axis=i["newdim"], keys=keys, **kw) if keys is not None else A.da.stack(seq, axis=i["newdim"], **kw)
                else:
                    ax = i["d"] if kk == "name" else i["arrs"][0]["dims"].index(i["d"])
                    if kk == "negpos":
                        ax -= len(i["arrs"][0]["dims"])
                    res = A.da.concatenate(objs if cont == "list" else tuple(objs), axis=ax, **kw)
            except Exception as e:  # noqa
                err = e
            what = None
            if [A.snapshot(o) for o in objs] != before:
                what = "input modified"
            elif not exp["ok"]:
                if err is None:
                    what = "expected ValueError (labels of the other axes differ), got a result"
                elif not isinstance(err, ValueError):
                    what = "expected ValueError, got %s: %s" % (type(err).__name__, str(err)[:200])
            elif err is not None:
                # a negative position may be refused (ValueError) - but never joined at the wrong place
                if not ((exp["mayrefuse"] or kk == "negpos") and isinstance(err, ValueError)):
                    what = "expected a result, got %s: %s" % (type(err).__name__, str(err)[:200])
            else:
                try:
                    act = A.project(res, codec)
                    e = dict(exp["val"])
                    if i["op"] == "stack" and kk == "default":
                        e["labs"] = [list(range(n))] + e["labs"][1:]
                    if act["dims"] != e["dims"]:
                        what = "dims: expected %s got %s" % (e["dims"], act["dims"])
                    else:
                        nact, why = normalise_free(act, e, exp["free"])
                        if nact is None:
                            what = why
                        else:
                            e["kinds"] = nact["kinds"]
                            what = A.compare(e, nact, free_kinds=True, dtype_any=[e["dtype"], "f"], check_aattrs=False) or None
                except A.Unprojectable as ex:
                    what = "result not projectable: %s" % ex
            if what:
                viol.append(dict(what=what, sig=signature(scn, variant), variant=variant))
    return dict(violations=viol, calls=calls)
