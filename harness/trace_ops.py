"""Code -> spec direction for the pure operators: random, larger-than-enumerated calls are executed on the real library,
logged in abstract form and validated by TLC against spec/TraceOps.tla (the reference operators of Arrays.tla)."""
import json
import multiprocessing as mp
import os
import random
import re

import numpy as np

from . import absarr as A
from . import tlc as T
from .indexing import index_tuple

DIMS = ["x", "y", "z", "w"]


def _rand_labels(rng, n, order):
    pool = rng.sample(range(-6, 20, 2), n)
    if order == "inc":
        pool.sort()
    elif order == "dec":
        pool.sort(reverse=True)
    return pool


def rand_array(rng, maxdim=4, maxlen=5, base=100, dtype="f", minlen=1):
    nd = rng.choice([1, 1, 2, 2, 3, 3, maxdim]) if maxdim >= 3 else rng.randint(1, maxdim)
    dims = rng.sample(DIMS, nd)
    labs = [_rand_labels(rng, rng.randint(minlen, maxlen), rng.choice(["inc", "dec", "shuffled"])) for _ in dims]
    n = int(np.prod([len(l) for l in labs]))
    return dict(dims=dims, kinds=["i"] * nd, labs=labs, aattrs=[rng.choice([0, 1, 2]) for _ in dims], dtype=dtype,
                attrs=rng.choice([0, 7]), cells=[base + k for k in range(1, n + 1)])


def _ix(k="all", v=0, l=(), m=(), lo=(), hi=(), st=()):
    return dict(k=k, v=v, l=list(l), m=list(m), lo=list(lo), hi=list(hi), st=list(st))


def rand_index(rng, L, mode, allow_repeat=True, allow_absent=True, force=None):
    n = len(L)
    c = force or rng.choice(["all", "sc", "sc", "li", "li", "mk", "sl", "sl"])
    if mode == "label":
        absent = [v for v in range(min(L) - 3, max(L) + 4) if v not in L]
        if c == "sc":
            return _ix("sc", v=rng.choice(absent) if (allow_absent and rng.random() < 0.1) else rng.choice(L))
        if c == "li":
            k = rng.randint(0, n + 1)
            l = [rng.choice(L) for _ in range(k)] if allow_repeat else rng.sample(L, min(k, n))
            if allow_absent and l and rng.random() < 0.1:
                l[rng.randrange(len(l))] = rng.choice(absent)
            return _ix("li", l=l)
        if c == "mk":
            return _ix("mk", m=[rng.random() < 0.5 for _ in L])
        if c == "sl":
            mono = L == sorted(L) or L == sorted(L, reverse=True)
            pick = (lambda: [rng.randint(min(L) - 2, max(L) + 2)]) if mono else (lambda: [rng.choice(L)])
            lo = [] if rng.random() < 0.3 else pick()
            hi = [] if rng.random() < 0.3 else pick()
            st = rng.choice([[], [], [1], [2], [3], [-1], [-2]])
            return _ix("sl", lo=lo, hi=hi, st=st)
        return _ix("all")
    if c == "sc":
        return _ix("sc", v=rng.randint(-n - (1 if allow_absent else 0), n - (0 if allow_absent else 1)) if n else 0)
    if c == "li":
        k = rng.randint(0, n + 1)
        l = [rng.randint(-n, n - 1) for _ in range(k)]
        if not allow_repeat:
            seen, l2 = set(), []
            for v in l:
                if v % n not in seen:
                    seen.add(v % n)
                    l2.append(v)
            l = l2
        return _ix("li", l=l)
    if c == "mk":
        return _ix("mk", m=[rng.random() < 0.5 for _ in L])
    if c == "sl":
        o = lambda: [] if rng.random() < 0.3 else [rng.randint(-n - 2, n + 2)]
        return _ix("sl", lo=o(), hi=o(), st=rng.choice([[], [1], [2], [-1], [-3]]))
    return _ix("all")


def _outcome(fn, codec, kinds_of=None):
    try:
        res = fn()
    except IndexError:
        return dict(ok=False, val=[], err="IndexError")
    except Exception as e:  # noqa
        return dict(ok=False, val=[], err=type(e).__name__)
    try:
        p = A.project(res, codec)
    except A.Unprojectable as ex:
        return dict(ok=False, val=[], err="Unprojectable: %s" % ex)
    if p.get("scalar"):
        p["attrs"] = None
    p.pop("scalar", None)
    return dict(ok=True, val=p, err="")


def gen_events(args):
    """one worker: (seed, n, families) -> list of events"""
    seed, n, families = args
    rng = random.Random(seed)
    codec = A.LabelCodec()
    out = []
    for k in range(n):
        fam = rng.choice(families)
        eid = seed * 100000 + k
        if fam in ("take", "put", "slice"):
            a = rand_array(rng, minlen=(0 if fam == "slice" and rng.random() < 0.1 else 1))
            mode = rng.choice(["label", "position"])
            forced = rng.randrange(len(a["labs"])) if fam == "slice" else -1
            idxs = [rand_index(rng, L, mode, allow_repeat=(fam != "put"), allow_absent=True, force=("sl" if q == forced else None)) if L
                    else _ix("sl", lo=[rng.randint(0, 4)] if rng.random() < 0.5 else [], hi=[], st=rng.choice([[], [-1]]))
                    for q, L in enumerate(a["labs"])]
            if fam == "slice":
                fam = "take"
            tol = []
            obj = A.gamma(a, codec)
            tup = index_tuple(idxs, a["kinds"], codec, mode, rng.randrange(2))
            if fam == "take":
                ev = dict(id=eid, op="take", **{"in": dict(a=a, idxs=idxs, mode=mode, tol=tol)})
                ev["out"] = _outcome(lambda: obj.take(tup, indexing=mode), codec)
                if ev["out"]["ok"] and ev["out"]["val"]["attrs"] is None:      # scalar result: metadata not applicable
                    ev["out"]["val"]["attrs"] = a["attrs"]
            else:
                rhs = dict(shape=[], cells=[901], kind="f")
                ev = dict(id=eid, op="put", **{"in": dict(a=a, idxs=idxs, mode=mode, tol=tol, rhs=rhs)})
                ev["out"] = _outcome(lambda: obj.put(tup, A.cell_enc(901, "f"), indexing=mode, inplace=False), codec)
        elif fam == "reshape":
            a = rand_array(rng)
            nd = len(a["dims"])
            obj = A.gamma(a, codec)
            op = rng.choice(["transpose", "swapaxes", "rollaxis", "newaxis", "squeeze"])
            if op == "transpose":
                perm = rng.sample(range(1, nd + 1), nd)
                ev = dict(id=eid, op=op, **{"in": dict(a=a, perm=perm)})
                ev["out"] = _outcome(lambda: obj.transpose([a["dims"][p - 1] for p in perm]), codec)
            elif op == "swapaxes":
                i, j = rng.randint(1, nd), rng.randint(1, nd)
                ev = dict(id=eid, op=op, **{"in": dict(a=a, i=i, j=j)})
                ev["out"] = _outcome(lambda: obj.swapaxes(i - 1, a["dims"][j - 1]), codec)
            elif op == "rollaxis":
                i, j = rng.randint(1, nd), rng.randint(0, nd)
                ev = dict(id=eid, op=op, **{"in": dict(a=a, i=i, j=j)})
                ev["out"] = _outcome(lambda: obj.rollaxis(a["dims"][i - 1], j), codec)
            elif op == "newaxis":
                pos = rng.randint(0, nd)
                vals = rng.choice([[], [30, 32]])
                ev = dict(id=eid, op=op, **{"in": dict(a=a, name="n", i=pos, vals=vals)})
                ev["out"] = _outcome(lambda: obj.newaxis("n", values=(codec.enc_seq(vals, "i") if vals else None), pos=pos), codec)
            else:
                singles = [q + 1 for q, l in enumerate(a["labs"]) if len(l) == 1]
                w = rng.choice([0] + singles)
                ev = dict(id=eid, op=op, **{"in": dict(a=a, i=w)})
                ev["out"] = _outcome(lambda: obj.squeeze() if w == 0 else obj.squeeze(a["dims"][w - 1]), codec)
        elif fam == "reindex":
            a = rand_array(rng, dtype=rng.choice(["f", "i"]))
            d = rng.randint(1, len(a["dims"]))
            L = a["labs"][d - 1]
            universe = list(range(min(L) - 3, max(L) + 4))
            new = [rng.choice(L) if rng.random() < 0.6 else rng.choice(universe) for _ in range(rng.randint(0, 6))]
            method = rng.choice(["none", "none", "left", "right"])
            raise_ = method == "none" and rng.random() < 0.2
            fill, fkind = (-1, "f") if (method != "none" or raise_ or rng.random() < 0.6) else (777, rng.choice(["i", "f"]))
            obj = A.gamma(a, codec)
            kw = {}
            if fill != -1:
                kw["fill_value"] = A.cell_enc(777, fkind)
            if raise_:
                kw["raise_error"] = True
            if method != "none":
                kw["method"] = method
            ev = dict(id=eid, op="reindex", **{"in": dict(a=a, d=d, new=new, fill=fill, fkind=fkind, **{"raise": raise_}, method=method)})
            ev["out"] = _outcome(lambda: obj.reindex_axis(codec.enc_seq(new, "i"), axis=a["dims"][d - 1], **kw), codec)
        out.append(ev)
    return out


def record_repo_tests(what, tests=("--doctest-modules", "--doctest-continue-on-failure", "dimarray", "tests")):
    """run the repository's own tests and the examples of its docstrings (as drivers: their own verdicts are ignored) under
    harness/pytest_recorder.py; returns (events, stats)"""
    import subprocess
    import sys
    repo = os.environ.get("VERIF_REPO", "/repo")
    out = os.path.join(T.WORK, "recorded_%s_%d.ndjson" % (what, os.getpid()))
    for f in (out, out + ".stats"):
        if os.path.exists(f):
            os.remove(f)
    env = dict(os.environ, DIMARRAY_VERIF="1", VERIF_TRACE_OUT=out, VERIF_TRACE_WHAT=what, PYTHONPATH=T.VERIF + os.pathsep + repo)
    subprocess.run([sys.executable, "-m", "pytest", "-q", "-p", "no:cacheprovider", "-p", "harness.pytest_recorder", "--continue-on-collection-errors"] + list(tests),
                   cwd=repo, env=env, stdout=subprocess.DEVNULL, stderr=subprocess.DEVNULL, timeout=900)
    if not os.path.exists(out):
        raise T.TLCError("the recorder produced no trace file")
    events = [json.loads(l) for l in open(out)]
    stats = json.load(open(out + ".stats"))
    os.remove(out)
    os.remove(out + ".stats")
    return events, stats


def validate(prop, tier, seed, ctx, families, n_quick=480, n_thorough=12000, repo_tests=None, min_recorded=20):
    """generate events, validate them with TLC, turn rejections into violations of `prop`"""
    n = n_quick if tier == "quick" else n_thorough
    chunks = [(1000 * (seed + 1) + i, n // 16 + 1, families) for i in range(16)]
    with mp.get_context("fork").Pool(16) as pool:
        events = [e for part in pool.map(gen_events, chunks) for e in part]
    recorded_stats = None
    if repo_tests:
        rec, recorded_stats = record_repo_tests(repo_tests)
        if len(rec) < min_recorded:
            raise T.TLCError("only %d calls recorded from the repository's tests" % len(rec))
        for e in rec:
            e["id"] = 900000000 + e["id"]
            e["recorded_from_repo_tests"] = True
        events += rec
    # negative controls: corrupted copies of accepted-looking events must be rejected
    controls = []
    for e in events[:60]:
        if e["out"]["ok"] and e["out"]["val"]["cells"]:
            c = json.loads(json.dumps(e))
            c["id"] = -abs(e["id"]) - 1
            c["out"]["val"]["cells"][0] = c["out"]["val"]["cells"][0] + 1
            controls.append(c)
    path = os.path.join(T.WORK, "%s_ops.ndjson" % prop)
    with open(path, "w") as f:
        for e in events + controls:
            f.write(json.dumps({k: e[k] for k in ("id", "op", "in", "out")}) + "\n")
    cfg = os.path.join(T.WORK, "%s_ops.cfg" % prop)
    T.write_cfg(cfg, spec="TSpec")
    outp = os.path.join(T.WORK, "%s_ops.out" % prop)
    res = T.run_tlc("TraceOps", cfg, "%s_ops" % prop, env_extra={"TRACE_FILE": path}, keep_stdout=outp, timeout=3000)
    if "No error has been found" not in res["raw_tail"]:
        raise T.TLCError("TraceOps run failed: " + res["raw_tail"][-1500:])
    acc, rej = set(), {}
    with open(outp) as f:
        for line in f:
            m = re.match(r'<<"T", (-?\d+)>>', line)
            if m:
                acc.add(int(m.group(1)))
                continue
            m = re.match(r'<<"X", (-?\d+), "([^"]*)", (".*")>>', line)
            if m:
                rej[int(m.group(1))] = (m.group(2), json.loads(json.loads(m.group(3))))
    ctx.states += res["distinct"]
    ctx.transitions += res["states"]
    # a control is the corrupted copy of event -id-1... it must be rejected whenever the original was accepted (if the
    # original itself is rejected - the code under test disagrees with the specification - its corrupted copy proves nothing)
    bad_controls = [c["id"] for c in controls if c["id"] in acc and (-c["id"] - 1) in acc]
    if bad_controls:
        raise T.TLCError("%d corrupted control events were accepted by TraceOps" % len(bad_controls))
    if len(acc) + len(rej) != len(events) + len(controls):
        raise T.TLCError("TraceOps judged %d of %d events" % (len(acc) + len(rej), len(events) + len(controls)))
    ok = 0
    for e in events:
        if e["id"] in acc:
            ok += 1
            continue
        clause, expected = rej[e["id"]]
        what = "recorded %s call disagrees with the specification in clause '%s': logged %s, specification %s" % (
            e["op"], clause, json.dumps(e["out"])[:300], json.dumps(expected)[:300])
        sig = "%s/%s/%s/ndim=%d/%s" % ("recorded-test" if e.get("recorded_from_repo_tests") else "trace", e["op"], e["in"].get("mode", "-"),
                                      len(e["in"]["a"]["dims"]), clause)
        ctx.violations.append(dict(what=what, sig=sig, variant="recorded", scenario=dict(trace_event=e)))
    ctx.traces += ok
    ctx.extra["trace_validation"] = dict(events=len(events), accepted=ok, families=families, corrupted_controls_rejected=len(controls),
                                         max_ndim=4, max_axis_len=5, repo_tests=recorded_stats)
    if events:
        ctx.samples.append(dict(recorded_event={k: events[0][k] for k in ("op", "in")}))
