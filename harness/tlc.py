"""Run TLC on a module of /verif/spec and parse what it prints.

Scenario / edge lines are printed by the specifications with PrintT(ToJson(..)):
every such line is a TLA+ string literal holding one JSON document.  Everything
else on stdout is TLC's own report, from which the state counts are taken.
"""
import json
import os
import re
import shutil
import subprocess
import time

VERIF = os.path.dirname(os.path.dirname(os.path.abspath(__file__)))
SPEC = os.path.join(VERIF, "spec")
WORK = os.path.join(VERIF, ".work")


class TLCError(RuntimeError):
    pass


def _cfg_value(v):
    if isinstance(v, bool):
        return "TRUE" if v else "FALSE"
    if isinstance(v, int):
        return str(v)
    if isinstance(v, str):
        return v  # already TLA+/cfg syntax (e.g. '"abc"', '{1,2}', or a definition name)
    if isinstance(v, (set, frozenset)):
        return "{" + ", ".join(_cfg_value(x) for x in sorted(v)) + "}"
    raise TypeError(v)


def write_cfg(path, spec="Spec", constants=None, subst=None, invariants=(), properties=(),
              constraints=(), view=None, postcondition=None, init=None, next_=None):
    lines = []
    if init:
        lines += ["INIT " + init, "NEXT " + next_]
    else:
        lines.append("SPECIFICATION " + spec)
    if constants or subst:
        lines.append("CONSTANTS")
        for k, v in (constants or {}).items():
            lines.append("  %s = %s" % (k, _cfg_value(v)))
        for k, v in (subst or {}).items():
            lines.append("  %s <- %s" % (k, v))
    for i in invariants:
        lines.append("INVARIANT " + i)
    for p in properties:
        lines.append("PROPERTY " + p)
    for c in constraints:
        lines.append("CONSTRAINT " + c)
    if view:
        lines.append("VIEW " + view)
    if postcondition:
        lines.append("POSTCONDITION " + postcondition)
    lines.append("CHECK_DEADLOCK FALSE")
    with open(path, "w") as f:
        f.write("\n".join(lines) + "\n")


_RE_STATES = re.compile(r"^(\d+) states generated, (\d+) distinct states found, (\d+) states left on queue")
_RE_DEPTH = re.compile(r"^The depth of the complete state graph search is (\d+)")
_RE_COV = re.compile(r"^<(\w+) line (\d+), col (\d+) to line (\d+), col (\d+) of module (\w+)>: (\d+):(\d+)")


def parse_json_line(line):
    """A PrintT(ToJson(x)) line -> python object, or None if the line is not one."""
    if not (line.startswith('"{') or line.startswith('"[')):
        return None
    s = json.loads(line)          # the TLA+ string literal is a valid JSON string literal
    return json.loads(s)


def run_tlc(module, cfg_path, tag, workers=16, timeout=1500, env_extra=None, simulate=None,
            depth=None, seed=None, coverage=False, keep_stdout=None, on_json=None, extra_args=()):
    """Run TLC; returns dict(states, distinct, depth, wall_s, json=[...], actions={name: count}, raw_tail).

    on_json: optional callable applied to each parsed JSON document instead of collecting it.
    """
    meta = os.path.join(WORK, "tlc_" + tag)
    shutil.rmtree(meta, ignore_errors=True)
    os.makedirs(meta, exist_ok=True)
    cmd = ["tlc", "-workers", str(workers), "-metadir", meta, "-noGenerateSpecTE", "-config", cfg_path]
    if coverage:
        cmd += ["-coverage", "1"]
    if simulate:
        cmd += ["-simulate", simulate]
    if depth is not None:
        cmd += ["-depth", str(depth)]
    if seed is not None:
        cmd += ["-seed", str(seed)]
    cmd += list(extra_args)
    cmd.append(module)
    env = dict(os.environ)
    if env_extra:
        env.update(env_extra)
    t0 = time.time()
    out_path = keep_stdout or os.path.join(meta, "stdout.txt")
    with open(out_path, "w") as fo:
        try:
            p = subprocess.run(cmd, cwd=SPEC, stdout=fo, stderr=subprocess.STDOUT, env=env, timeout=timeout)
        except subprocess.TimeoutExpired:
            subprocess.run(["pkill", "-f", meta], check=False)
            raise TLCError("TLC timed out after %ss: %s" % (timeout, " ".join(cmd)))
    wall = time.time() - t0
    res = dict(states=0, distinct=0, depth=0, wall_s=wall, json=[], actions={}, returncode=p.returncode,
               stdout=out_path, cmd=" ".join(cmd))
    other = []
    bad_json = 0
    with open(out_path) as fi:
        for line in fi:
            line = line.rstrip("\n")
            if line.startswith('"{') or line.startswith('"['):
                try:
                    doc = parse_json_line(line)
                except Exception:
                    bad_json += 1
                    continue
                if on_json is not None:
                    on_json(doc)
                else:
                    res["json"].append(doc)
                continue
            m = _RE_STATES.match(line)
            if m:
                res["states"], res["distinct"] = int(m.group(1)), int(m.group(2))
            m = _RE_DEPTH.match(line)
            if m:
                res["depth"] = int(m.group(1))
            m = _RE_COV.match(line)
            if m:
                res["actions"][m.group(1)] = res["actions"].get(m.group(1), 0) + int(m.group(8))
            other.append(line)
            if len(other) > 400:
                del other[:200]
    res["raw_tail"] = "\n".join(other[-60:])
    res["bad_json"] = bad_json
    ok = ("Model checking completed. No error has been found." in res["raw_tail"]) or \
         (simulate and p.returncode == 0)
    res["ok"] = bool(ok) and bad_json == 0
    shutil.rmtree(os.path.join(meta), ignore_errors=True) if keep_stdout else None
    return res


def require_ok(res, what):
    if not res["ok"]:
        raise TLCError("TLC failed on %s (rc=%s, bad_json=%s)\n%s" % (what, res["returncode"], res["bad_json"], res["raw_tail"]))
