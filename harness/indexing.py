"""Concretisation of abstract index specs and the equivalent spellings of a read (C01/C02/C20)."""
import numpy as np

from .absarr import LabelCodec


def conc_index(ix, kind, codec, mode, form=0):
    """abstract per-dimension index -> python index object.  form: 0 list, 1 ndarray for list indices"""
    k = ix["k"]
    if k == "all":
        return slice(None)
    if mode == "position":
        if k == "sc":
            return int(ix["v"])
        if k == "li":
            l = [int(v) for v in ix["l"]]
            return l if form == 0 else np.array(l, dtype=int)
        if k == "mk":
            return np.array(ix["m"], dtype=bool)
        if k == "sl":
            o = lambda x: None if x == [] else int(x[0])
            return slice(o(ix["lo"]), o(ix["hi"]), o(ix["st"]))
    else:
        if k == "sc":
            return codec.enc(ix["v"], kind)
        if k == "li":
            l = [codec.enc(v, kind) for v in ix["l"]]
            if form == 0:
                return l
            return codec.enc_seq(ix["l"], kind)
        if k == "mk":
            return np.array(ix["m"], dtype=bool)
        if k == "sl":
            o = lambda x: None if x == [] else codec.enc(x[0], kind)
            st = None if ix["st"] == [] else int(ix["st"][0])
            return slice(o(ix["lo"]), o(ix["hi"]), st)
    raise ValueError(ix)


def index_tuple(idxs, kinds, codec, mode, form=0):
    return tuple(conc_index(ix, k, codec, mode, form) for ix, k in zip(idxs, kinds))


def read_spellings(mode, idxs, dims, tol):
    """names of the spellings applicable to this scenario"""
    nonall = [i for i, ix in enumerate(idxs) if ix["k"] != "all"]
    sp = []
    if mode == "label":
        if tol is None:
            sp += ["getitem", "take", "take_dict", "loc", "sel", "opt_ix", "opt_loc", "opt_sel", "opt_take_label", "take_keepdims"]
            if len(nonall) == 1:
                sp += ["take_axis_name", "take_axis_pos"]
            if len(nonall) <= 1 and len(dims) >= 1:
                sp += ["getitem_partial"]
        else:
            sp += ["take_tol", "take_dict_tol", "opt_take_label_tol"]
            if tol == np.inf:
                sp += ["nloc", "opt_nloc"]
    else:
        sp += ["ix", "iloc", "isel", "take_position", "opt_getitem", "opt_iloc", "opt_isel", "opt_take", "opt_take_dict", "take_keepdims"]
        if len(nonall) == 1:
            sp += ["take_axis_name_position"]
    return sp


def do_read(a, spelling, tup, dims, idxs, tol, da):
    """perform the read through the given spelling; may raise"""
    nonall = [i for i, ix in enumerate(idxs) if ix["k"] != "all"]
    d = {dims[i]: tup[i] for i in nonall}
    if spelling == "getitem":
        return a[tup] if len(tup) != 1 else a[tup[0]]
    if spelling == "getitem_partial":
        # trailing full slices may be omitted
        last = (nonall[-1] + 1) if nonall else 0
        t = tup[:last]
        return a[t] if len(t) != 1 else a[t[0]]
    if spelling == "take":
        return a.take(tup)
    if spelling == "take_dict":
        return a.take(d)
    if spelling == "loc":
        return a.loc[tup]
    if spelling == "sel":
        return a.sel(**d)
    if spelling == "take_axis_name":
        return a.take(tup[nonall[0]], axis=dims[nonall[0]])
    if spelling == "take_axis_pos":
        return a.take(tup[nonall[0]], axis=nonall[0])
    if spelling == "take_tol":
        return a.take(tup, tol=tol)
    if spelling == "take_dict_tol":
        return a.take(d, tol=tol)
    if spelling == "nloc":
        return a.nloc[tup]
    if spelling == "ix":
        return a.ix[tup]
    if spelling == "iloc":
        return a.iloc[tup]
    if spelling == "isel":
        return a.isel(**d)
    if spelling == "take_position":
        return a.take(tup, indexing="position")
    if spelling == "take_axis_name_position":
        return a.take(tup[nonall[0]], axis=dims[nonall[0]], indexing="position")
    raise ValueError(spelling)


def _d(a, tup):
    return {ax.name: ix for ax, ix in zip(a.axes, tup) if not (isinstance(ix, slice) and ix == slice(None))}


OPTION_SPELLINGS = {
    # spelling -> (value of indexing.by while the array is built and read, accessor(a, tup, tol))
    "opt_ix": ("position", lambda a, tup, tol: a.ix[tup]),        # .ix toggles: label under indexing.by=position
    "opt_loc": ("position", lambda a, tup, tol: a.loc[tup]),      # .loc, .sel, .nloc, indexing='label' keep their meaning
    "opt_sel": ("position", lambda a, tup, tol: a.sel(**_d(a, tup))),
    "opt_take_label": ("position", lambda a, tup, tol: a.take(tup, indexing="label")),
    "opt_take_label_tol": ("position", lambda a, tup, tol: a.take(tup, indexing="label", tol=tol)),
    "opt_nloc": ("position", lambda a, tup, tol: a.nloc[tup]),
    "opt_getitem": ("position", lambda a, tup, tol: a[tup] if len(tup) != 1 else a[tup[0]]),
    "opt_iloc": ("position", lambda a, tup, tol: a.iloc[tup]),
    "opt_isel": ("position", lambda a, tup, tol: a.isel(**_d(a, tup))),
    "opt_take": ("position", lambda a, tup, tol: a.take(tup)),     # the default mode follows the option
    "opt_take_dict": ("position", lambda a, tup, tol: a.take(_d(a, tup))),
}
