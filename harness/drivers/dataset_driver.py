"""Random executions of the real Dataset, recorded as events of the DatasetHeap machine (code -> spec direction of C13)."""
import random

import numpy as np

from .. import absarr as A
from ..checks.c13 import project_ds, _apply

BASE = ["x", "y", "z"]
NAMES = BASE + ["X", "Y", "Z", "u", "v"]
KEYS = ["a", "b", "c"]
LABU = [2, 4, 6, 8, 3]


def _rand_labs(rng, n):
    return rng.sample(LABU, n)


def _cand(rng, ds, codec, val):
    nd = rng.choice([0, 1, 1, 2, 2, 2, 3])
    names = list(ds.dims)
    pool = list(dict.fromkeys(names + BASE))
    dims = rng.sample(pool, min(nd, len(pool)))
    labs = []
    for d in dims:
        if d in names and rng.random() < 0.7:
            labs.append(codec.dec_axis(ds.axes[d].values)[1])          # matching labels
        elif d in names:
            cur = codec.dec_axis(ds.axes[d].values)[1]
            labs.append(_rand_labs(rng, rng.choice([len(cur), 1, 2, 3])))  # most likely mismatching
        else:
            labs.append(_rand_labs(rng, rng.choice([1, 2, 3])))
    size = int(np.prod([len(l) for l in labs])) if labs else 1
    return dict(dims=dims, labs=labs, val=val, cells=[100 * val + k + 1 for k in range(size)])


def one_trace(seed, steps):
    rng = random.Random(seed)
    codec = A.LabelCodec()
    ds = A.Dataset()
    events = []
    abandoned = []
    val = 0
    for _ in range(steps):
        names = list(ds.dims)
        keys = list(ds.keys())
        free_names = [n for n in NAMES if n not in names]
        choices = ["setvar"] * 4
        if keys:
            choices += ["delvar", "rename_keys", "rename_var", "set_axis_var", "relabel_one_var", "rename_var_set_axis"]
            if all(ds.axes[n].size > 0 for n in names) and all(any(n in dict.__getitem__(ds, q).dims for q in keys) for n in names):
                choices += ["continue"] + (["dim_variable"] if names else [])
        if names:
            choices += ["rename_ds", "rename_axes", "set_axis", "relabel_one", "replace_axis", "set_dims"]
        if free_names and len(names) < 5:
            choices += ["append_axis"]
        act = rng.choice(choices)
        if act == "setvar":
            val += 1
            args = dict(k=rng.choice(KEYS), c=_cand(rng, ds, codec, val))
        elif act == "delvar":
            args = dict(k=rng.choice(keys))
        elif act == "rename_keys":
            k = rng.choice(keys)
            others = [q for q in KEYS if q not in keys]
            if rng.random() < 0.3 and len(keys) >= 2:
                others = [q for q in keys if q != k]          # onto a key that exists: that variable is replaced
            if not others:
                continue
            args = dict(k=k, n=rng.choice(others))
        elif act == "rename_var":
            k = rng.choice(keys)
            v = dict.__getitem__(ds, k)
            if v.ndim == 0 or not free_names:
                continue
            args = dict(k=k, j=rng.randrange(v.ndim) + 1, n=rng.choice(free_names))
        elif act in ("set_axis_var", "relabel_one_var", "rename_var_set_axis"):
            k = rng.choice(keys)
            v = dict.__getitem__(ds, k)
            if v.ndim == 0:
                continue
            j = rng.randrange(v.ndim)
            if act == "set_axis_var":
                args = dict(k=k, j=j + 1, labs=_rand_labs(rng, v.axes[j].size))
            elif act == "relabel_one_var":
                if v.axes[j].size == 0:
                    continue
                args = dict(k=k, j=j + 1, i=rng.randrange(v.axes[j].size) + 1, v=rng.choice([1, 5, 7, 9]))
            else:
                if not free_names:
                    continue
                args = dict(k=k, j=j + 1, n=rng.choice(free_names))
        elif act == "dim_variable":
            args = dict(d=rng.choice(names), n="q", k=keys[0], labs=[])
        elif act == "continue":
            kind = rng.choice(["copy", "rename_axes_copy", "set_axis_copy", "rename_keys_copy"])
            act = "continue_" + kind
            d = rng.choice(names) if names else ""
            others = [q for q in KEYS if q not in keys]
            if kind in ("rename_axes_copy", "set_axis_copy") and not names:
                continue
            if kind == "rename_axes_copy" and not free_names:
                continue
            if kind == "rename_keys_copy" and not others:
                continue
            args = dict(d=d, n=(rng.choice(others) if kind == "rename_keys_copy" else (rng.choice(free_names) if free_names else "q")),
                        k=rng.choice(keys), labs=_rand_labs(rng, ds.axes[d].size) if d else [])
        elif act in ("rename_ds", "rename_axes"):
            if not free_names:
                continue
            args = dict(d=rng.choice(names), n=rng.choice(free_names))
        elif act == "set_dims":
            if rng.random() < 0.4 and len(names) >= 2:
                perm = names[:]
                rng.shuffle(perm)
                args = dict(names=perm, olds=names)  # a permutation of the current names (swap / shift)
            elif len(free_names) < len(names):
                continue
            else:
                args = dict(names=rng.sample(free_names, len(names)), olds=names)
        elif act in ("set_axis", "replace_axis"):
            d = rng.choice(names)
            args = dict(d=d, labs=_rand_labs(rng, ds.axes[d].size))
        elif act == "relabel_one":
            d = rng.choice(names)
            if ds.axes[d].size == 0:
                continue
            args = dict(d=d, i=rng.randrange(ds.axes[d].size) + 1, v=rng.choice([1, 5, 7, 9]))
        elif act == "append_axis":
            args = dict(d=rng.choice(free_names), labs=_rand_labs(rng, rng.choice([1, 2, 3])))
        ev = dict(act=act, args=args)
        try:
            new = _apply(ds, ev, codec)
            if new is not None:
                abandoned.append((ds, project_ds(ds, codec)))
                ds = new
            ev["ok"] = True
        except ValueError:
            ev["ok"] = False
        except Exception as e:   # noqa  -- logged as a failed call of another class; the spec will not accept it
            ev["ok"] = False
            ev["exc"] = type(e).__name__
        try:
            ev["post"] = project_ds(ds, codec)
            for old, proj in abandoned:
                if project_ds(old, codec) != proj:     # an abandoned Dataset changed: no specification state has this projection
                    ev["post"] = dict(dims=["<abandoned Dataset changed>"], labs=[], vars=[])
        except Exception as e:  # noqa  -- an unprojectable Dataset ends the trace; the specification will reject the event
            ev["post"] = dict(dims=["<unprojectable: %s>" % type(e).__name__], labs=[], vars=[])
            events.append(ev)
            break
        events.append(ev)
    return dict(tid=seed, events=events)
