"""Random write sequences through dimarray.io.nc, recorded as events of the NcStore machine (code -> spec direction of C19)."""
import os
import random
import shutil
import tempfile

import numpy as np

from .. import absarr as A
from .. import ncabs as N
from .. import tlc as T

AXES = {"x": ("i", [4, 2, 6], 1), "y": ("f", [3, 7], 2), "z": ("s", [6, 2], 0), "w": ("i", [8], 3), "v": ("f", [5, 1, 9, 3], 0)}


def rand_array(rng, base, strfree):
    pool = [d for d in AXES if not (strfree and AXES[d][0] == "s")]
    nd = rng.choice([0, 1, 1, 2, 2, 3])
    dims = rng.sample(pool, min(nd, len(pool)))
    dtype = rng.choice(["f", "f", "i", "j"] + ([] if strfree else ["O"]))
    labs = [AXES[d][1] for d in dims]
    n = int(np.prod([len(l) for l in labs])) if labs else 1
    cells = [base + k for k in range(1, n + 1)]
    if dtype == "f":
        cells = [(-1 if rng.random() < 0.2 else c) for c in cells]
    return dict(dims=dims, kinds=[AXES[d][0] for d in dims], labs=labs, aattrs=[AXES[d][2] for d in dims], dtype=dtype,
                attrs=rng.choice([0, 7, 8]), cells=cells)


def project_file(fn, codec):
    from ..checks.c19 import project_file as pf
    f = pf(fn, codec)
    return dict(present=True, format="", dims=f["dims"], axes=f["axes"], vars=f["vars"], gattrs=f["gattrs"])


def one_trace(seed, steps):
    rng = random.Random(seed)
    codec = A.LabelCodec()
    os.environ["NCSTUB_PROFILE"] = rng.choice(["always_mask", "mask_if_missing"])
    tmp = tempfile.mkdtemp(prefix="ncd_", dir=T.WORK)
    fn = os.path.join(tmp, "f.nc")
    events = []
    fmt_now = None
    varinfo = {}      # key -> (dims, dtype) currently in the file
    base = 0
    try:
        for _ in range(steps):
            exists = os.path.exists(fn)
            act = rng.choice(["write_dataset", "write_array", "write_array", "open_setitem"] if exists else ["write_dataset", "write_array", "write_array"])
            fmt = rng.choice(["NETCDF4", "NETCDF4", "NETCDF3_CLASSIC"])
            if act == "write_dataset":
                mode = rng.choice(["w", "w", "a", "a+"])      # (not w-: see spec/NcStore.tla)
                fresh = mode == "w" or (mode in ("w-", "a+") and not exists)
                eff_fmt = fmt if fresh else fmt_now
                strfree = eff_fmt is not None and eff_fmt != "NETCDF4"
                arrs = []
                skip = False
                for key in "abc"[:rng.choice([0, 1, 2, 3])]:
                    base += 100
                    a = rand_array(rng, base, strfree)
                    if not fresh and key in varinfo:       # overwriting needs the same dims and dtype
                        tries = 0
                        while (a["dims"], a["dtype"]) != varinfo[key] and tries < 50:
                            a = rand_array(rng, base, strfree)
                            tries += 1
                        if (a["dims"], a["dtype"]) != varinfo[key]:
                            skip = True
                    arrs.append(a)
                if skip:
                    continue
                g = rng.choice([0, 9])
                args = dict(arrs=arrs, fmt=fmt, g=g, k="", mode=mode)
                ds = A.Dataset()
                for k, a in zip("abc", arrs):
                    ds[k] = N.gamma(a, codec)
                ds.attrs.update(N.attrs_enc(g))
                call = lambda: ds.write_nc(fn, mode=mode, format=fmt)
                if fresh:
                    new_fmt, new_vars = fmt, {k: (a["dims"], a["dtype"]) for k, a in zip("abc", arrs)}
                else:
                    new_fmt, new_vars = fmt_now, dict(varinfo, **{k: (a["dims"], a["dtype"]) for k, a in zip("abc", arrs)})
            else:
                mode = rng.choice(["w", "w-", "a", "a+"]) if act == "write_array" else "a"
                fresh = mode == "w" or (mode in ("w-", "a+") and not exists)
                eff_fmt = fmt if fresh else fmt_now
                strfree = eff_fmt is not None and eff_fmt != "NETCDF4"
                k = rng.choice(["a", "b", "c", "d"])
                base += 100
                a = rand_array(rng, base, strfree)
                if not fresh and k in varinfo:       # overwriting needs the same dims and dtype
                    dims0, dt0 = varinfo[k]
                    tries = 0
                    while (a["dims"], a["dtype"]) != (dims0, dt0) and tries < 50:
                        a = rand_array(rng, base, strfree)
                        tries += 1
                    if (a["dims"], a["dtype"]) != (dims0, dt0):
                        continue
                args = dict(arrs=[a], fmt=fmt if act == "write_array" else "", g=0, k=k, mode=mode)
                obj = N.gamma(a, codec)
                if act == "write_array":
                    call = lambda: obj.write_nc(fn, name=k, mode=mode, format=fmt)
                else:
                    def call():
                        with A.da.open_nc(fn, "a") as h:
                            h[k] = obj
                if fresh:
                    new_fmt, new_vars = fmt, {k: (a["dims"], a["dtype"])}
                else:
                    new_fmt, new_vars = fmt_now, dict(varinfo, **{k: (a["dims"], a["dtype"])})
            ev = dict(act=act, args=args)
            try:
                call()
                ev["ok"] = True
                fmt_now, varinfo = new_fmt, new_vars
            except Exception as e:  # noqa
                ev["ok"] = False
                ev["exc"] = type(e).__name__
            try:
                ev["post"] = project_file(fn, codec) if os.path.exists(fn) else dict(present=False, format="", dims=[], axes=[], vars=[], gattrs=0)
            except Exception as e:  # noqa
                ev["post"] = dict(present=True, format="<unreadable: %s>" % type(e).__name__, dims=[], axes=[], vars=[], gattrs=0)
                events.append(ev)
                break
            events.append(ev)
    finally:
        shutil.rmtree(tmp, ignore_errors=True)
    return dict(tid=seed, events=events)
