"""Common driver of the per-property checks.

A check module (harness/checks/cXX.py) provides

  PROP       = "C01"
  def tlc_jobs(tier, seed) -> [dict(tag, module, cfg=dict(..write_cfg kwargs..), kind="scenarios"|"model"|..)]
  def replay(scn) -> list of dict(what=..., sig=..., variant=...)      (runs in worker processes)
  def classify(scn) -> iterable of vacuity-class names (strings)
  FLOORS     = {class name or prefix: (quick_min, thorough_min)}
  optional: def trace_events(tier, seed) -> (events, module, cfg)     code -> spec direction
  optional: def post(tier, ctx)                                       extra work, may add violations

Exit codes (DESIGN S7): 0 held; 1 violation not listed as known; 2 machinery failure.
"""
import importlib
import json
import multiprocessing as mp
import os
import sys
import time
import traceback

from . import tlc as T

VERIF = T.VERIF
EVID = os.path.join(VERIF, "evidence")
REPLAYS = os.path.join(VERIF, "replays")
KNOWN = os.path.join(VERIF, "known_findings.json")
if os.path.realpath(os.environ.get("VERIF_REPO", "/repo")) != "/repo":
    # a run against a scratch copy (seeded change): its evidence and replay files must not replace those of /repo
    EVID = os.path.join(T.WORK, "scratch_evidence")
    REPLAYS = os.path.join(T.WORK, "scratch_replays")


def load_known(prop):
    try:
        with open(KNOWN) as f:
            doc = json.load(f)
    except FileNotFoundError:
        return []
    return [e for e in doc.get("findings", []) if e.get("property") == prop and e.get("status") == "known"]


def match_known(known, sig, what=""):
    """a violation is a known finding only if its input signature AND its failure message match the entry"""
    import re
    for e in known:
        if re.fullmatch(e["sig_pattern"], sig) and re.search(e.get("what_pattern", ""), what):
            return e
    return None


_check = None


def _init_worker(modname):
    global _check
    os.environ.setdefault("PYTHONHASHSEED", "0")
    _check = importlib.import_module(modname)


def _replay_chunk(chunk):
    out = []
    classes = {}
    n = 0
    calls = 0
    from . import absarr
    for scn in chunk:
        absarr.WARM = bool(scn.get("warm", False)) if isinstance(scn, dict) else False
        absarr.FORDER = bool(scn.get("forder", False)) if isinstance(scn, dict) else False
        absarr.RELABEL = bool(scn.get("relabel", False)) if isinstance(scn, dict) else False
        try:
            r = _check.replay(scn)
        except Exception as ex:
            # the replay itself failed: on the unchanged tree this never happens (it would be a defect of the harness, and is as
            # visible as one); on a changed tree it means the library handed back something the replay could not work with -
            # reported as a violation of the scenario being replayed, reproducible from the replay file
            r = dict(violations=[dict(what="the replay of this scenario raised %s (the library returned something the harness could not "
                                           "handle): %s" % (type(ex).__name__, traceback.format_exc(limit=6)),
                                      sig="replay-raised/%s" % type(ex).__name__, variant="-")], calls=0)
        n += 1
        calls += r.get("calls", 0)
        for v in r.get("violations", []):
            v["scenario"] = scn
            if absarr.WARM:
                v["variant"] = str(v.get("variant", "")) + " warm-caches"
            if absarr.FORDER:
                v["variant"] = str(v.get("variant", "")) + " fortran-order"
            if absarr.RELABEL:
                v["variant"] = str(v.get("variant", "")) + " relabelled-in-place"
            if r.get("machinery"):
                v["machinery"] = True
            out.append(v)
        for c in _check.classify(scn):
            classes[c] = classes.get(c, 0) + 1
    return out, classes, n, calls


def replay_all(modname, scenarios, procs=16, chunk=200):
    # every other scenario is replayed on operands whose caches have been warmed (absarr.WARM); a replay file carries the flag
    # ... and every third one on operands whose data are stored in Fortran order (absarr.FORDER)
    # ... and every fifth one on operands whose axes were looked up under other labels and then relabelled in place (absarr.RELABEL)
    scenarios = [(dict(s, warm=(k % 2 == 1), forder=(k % 3 == 2), relabel=(k % 5 == 4)) if isinstance(s, dict) and "warm" not in s else s) for k, s in enumerate(scenarios)]
    chunks = [scenarios[i:i + chunk] for i in range(0, len(scenarios), chunk)]
    viol, classes, n, calls = [], {}, 0, 0
    if not chunks:
        return viol, classes, n, calls
    with mp.get_context("fork").Pool(procs, initializer=_init_worker, initargs=(modname,)) as pool:
        for v, c, k, cc in pool.imap_unordered(_replay_chunk, chunks):
            viol.extend(v)
            n += k
            calls += cc
            for kk, vv in c.items():
                classes[kk] = classes.get(kk, 0) + vv
    return viol, classes, n, calls


class Ctx(object):
    def __init__(self, prop, tier, seed):
        self.prop, self.tier, self.seed = prop, tier, seed
        self.states = 0
        self.transitions = 0
        self.distinct = 0
        self.scenarios = 0
        self.calls = 0
        self.traces = 0
        self.classes = {}
        self.violations = []
        self.samples = []
        self.notes = []
        self.tlc_runs = []
        self.exhaustive = True
        self.extra = {}


def run(prop, tier, seed, only_replay=None):
    t0 = time.time()
    modname = "harness.checks." + prop.lower()
    check = importlib.import_module(modname)
    ctx = Ctx(prop, tier, seed)
    os.makedirs(T.WORK, exist_ok=True)
    os.makedirs(EVID, exist_ok=True)
    rdir = os.path.join(REPLAYS, prop)
    os.makedirs(rdir, exist_ok=True)
    machinery = []
    try:
        if only_replay:
            with open(only_replay) as f:
                doc = json.load(f)
            scns = [doc["scenario"]] if "scenario" in doc else doc["scenarios"]
            v, c, n, calls = replay_all(modname, scns, procs=1)
            ctx.violations += v
            ctx.scenarios += n
        else:
            for job in check.tlc_jobs(tier, seed):
                cfgp = os.path.join(T.WORK, "%s_%s.cfg" % (prop, job["tag"]))
                T.write_cfg(cfgp, **job["cfg"])
                res = T.run_tlc(job["module"], cfgp, "%s_%s" % (prop, job["tag"]), **job.get("run", {}))
                ctx.tlc_runs.append(dict(tag=job["tag"], module=job["module"], states=res["states"], distinct=res["distinct"],
                                         depth=res["depth"], wall_s=round(res["wall_s"], 1), scenarios=len(res["json"]),
                                         actions=res["actions"]))
                if not res["ok"]:
                    machinery.append("TLC failed on %s/%s: %s" % (job["module"], job["tag"], res["raw_tail"][-1500:]))
                    continue
                ctx.states += res["distinct"]
                ctx.transitions += res["states"]
                if job.get("simulate"):
                    ctx.exhaustive = False
                scns = res["json"]
                if job.get("kind", "scenarios") == "model":
                    continue
                if job.get("kind", "scenarios") == "scenarios":
                    keyed = {json.dumps(s, sort_keys=True): s for s in scns}     # TLC may reach one state twice
                    scns = [keyed[k] for k in sorted(keyed)]
                    if not ctx.samples and scns:
                        ctx.samples.append(scns[len(scns) // 2])
                    v, c, n, calls = replay_all(modname, scns)
                    ctx.violations += v
                    ctx.scenarios += n
                    ctx.calls += calls
                    for kk, vv in c.items():
                        ctx.classes[kk] = ctx.classes.get(kk, 0) + vv
                elif hasattr(check, "handle"):
                    check.handle(job, res, ctx)
            if hasattr(check, "post"):
                check.post(tier, seed, ctx)
    except T.TLCError as e:
        machinery.append(str(e))
    except Exception:
        machinery.append("harness failure: " + traceback.format_exc())

    # vacuity floors
    floors = getattr(check, "FLOORS", {})
    if not only_replay and not machinery:
        for cls, (q, th) in floors.items():
            need = q if tier == "quick" else th
            have = sum(v for k, v in ctx.classes.items() if k == cls or k.startswith(cls + "/"))
            if have < need:
                machinery.append("vacuity floor not reached: class %s seen %d < %d" % (cls, have, need))

    # triage violations
    known = load_known(prop)
    new, known_hits, observations = [], {}, {}
    for v in ctx.violations:
        if v.get("machinery"):
            machinery.append(v["what"])
            continue
        if v.get("observation"):
            # a disagreement between the specification and the code on behaviour that the property's statement does not
            # cover (the model is wider than the listed properties): reported, never a VIOLATION, no effect on the exit code
            observations.setdefault(v.get("sig", "?"), []).append(v)
            continue
        e = match_known(known, v.get("sig", ""), v.get("what", ""))
        if e is not None:
            known_hits.setdefault(e["id"], [e, 0])[1] += 1
        else:
            new.append(v)
    lines = []
    for kid, (e, cnt) in sorted(known_hits.items()):
        lines.append("KNOWN-FINDING: property=%s %s [%s; %d scenario(s)]" % (prop, e["what"], kid, cnt))
    bysig = {}
    for v in new:
        bysig.setdefault(v.get("sig", "?"), []).append(v)
    if not only_replay:
        for fn in os.listdir(rdir):
            if fn.startswith("violation_%s_" % tier):
                os.remove(os.path.join(rdir, fn))
    if not only_replay and os.path.exists(os.path.join(rdir, "summary_%s.json" % tier)):
        os.remove(os.path.join(rdir, "summary_%s.json" % tier))
    if bysig and not only_replay:
        with open(os.path.join(rdir, "summary_%s.json" % tier), "w") as f:
            json.dump({sig: dict(count=len(vs), what=vs[0]["what"][:300], variant=vs[0].get("variant")) for sig, vs in bysig.items()},
                      f, indent=1, sort_keys=True)
    for i, (sig, vs) in enumerate(sorted(bysig.items())):
        if i >= 25:
            lines.append("  ... and %d more violation signatures (not written)" % (len(bysig) - 25))
            break
        path = os.path.join(rdir, "violation_%s_%02d.json" % (tier, i))
        vs.sort(key=lambda v: len(json.dumps(v["scenario"])))
        with open(path, "w") as f:
            json.dump(dict(property=prop, sig=sig, what=vs[0]["what"], variant=vs[0].get("variant"), count=len(vs),
                           scenario=vs[0]["scenario"]), f, indent=1, sort_keys=True)
        lines.append("VIOLATION property=%s replay=%s" % (prop, path))
        lines.append("  sig=%s variant=%s count=%d :: %s" % (sig, vs[0].get("variant"), len(vs), vs[0]["what"][:600]))

    for sig, vs in sorted(observations.items())[:10]:
        lines.append("OBSERVATION (outside the statement of %s, informational only): %s count=%d :: %s" % (prop, sig, len(vs), vs[0]["what"][:300]))
    wall = time.time() - t0
    level = getattr(check, "LEVEL", "model_checking")
    cov = dict(states=ctx.states, transitions=ctx.transitions,
               traces_validated_against_impl=ctx.scenarios + ctx.traces,
               samples=ctx.samples[:3] or ["(none)"],
               evaluations=ctx.calls, distinct_nontrivial=ctx.scenarios,
               rule=getattr(check, "RULE", "distinct TLC-generated scenarios / behaviours replayed against the implementation"),
               exhaustive=bool(ctx.exhaustive and tier is not None),
               scenario_classes=ctx.classes, tlc_runs=ctx.tlc_runs, spec_to_code_scenarios=ctx.scenarios,
               code_to_spec_events=ctx.traces, impl_calls=ctx.calls,
               known_finding_hits={k: v[1] for k, v in known_hits.items()},
               observations_outside_statement={k: len(v) for k, v in observations.items()},
               checker_cmd="python run_check.py %s --tier %s" % (prop, tier))
    cov.update(ctx.extra)
    ev = dict(property_id=prop, tier=tier, seed=int(seed), level=level, coverage=cov,
              assumptions=getattr(check, "ASSUMPTIONS", []) + ["TLC 1.8 and the CommunityModules JSON module",
                                                               "projection/concretisation in harness/absarr.py",
                                                               "NumPy as the arithmetic oracle"],
              wall_s=round(wall, 2), violations=len(bysig))
    if not only_replay:
        with open(os.path.join(EVID, prop + ".json"), "w") as f:
            json.dump(ev, f, indent=1, sort_keys=True)
    for l in lines:
        print(l)
    print("%s %s: states=%d scenarios=%d impl_calls=%d traces=%d violations=%d known=%d wall=%.1fs" % (
        prop, tier, ctx.states, ctx.scenarios, ctx.calls, ctx.traces, len(bysig), len(known_hits), wall))
    if machinery:
        for m in machinery[:10]:
            print("MACHINERY-FAILURE: " + m, file=sys.stderr)
        # violations already established against the implementation stand, whatever else went wrong afterwards
        return 1 if bysig else 2
    return 1 if bysig else 0
