"""File-backed stand-in for the subset of netCDF4-python that dimarray.io.nc uses.

netCDF4 (and its C library) is not installed in the verification sandbox.  This module reproduces the documented
*API contract* of netCDF4-python for that subset (see /verif/DESIGN.md section 9.1): orthogonal indexing, integer
indices drop dimensions, unlimited dimensions grow on write and pad the other variables with missing values, vlen
str variables return object arrays, attributes via setncattr/getncattr/ncattrs/delncattr, file_format, modes
r / w / a / r+ with clobber, no int64 / str variables in the NETCDF3 formats.  The state is pickled to the
requested file name so that close / reopen / os.path.exists / os.remove behave as for a real file.

Profile (environment variable NCSTUB_PROFILE):
  always_mask      (default, netCDF4-python >= 1.4): numeric reads always return a MaskedArray
  mask_if_missing  (older releases / set_always_mask(False)): a plain ndarray unless something is missing
"""
import os
import pickle
from collections import OrderedDict

import numpy as np

__version__ = "stub-1.0"
_FORMATS = ("NETCDF4", "NETCDF4_CLASSIC", "NETCDF3_CLASSIC", "NETCDF3_64BIT", "NETCDF3_64BIT_OFFSET", "NETCDF3_64BIT_DATA")
_MAGIC = b"NCSTUB1\n"


def _profile():
    return os.environ.get("NCSTUB_PROFILE", "always_mask")


def _norm_attr(value):
    if isinstance(value, (bool, np.bool_)):
        raise TypeError("illegal data type for attribute, must be one of dict_keys(['S1', 'i1', 'u1', 'i2', 'u2', 'i4', 'u4', 'i8', 'u8', 'f4', 'f8']), got bool")
    if value is None or isinstance(value, dict):
        raise TypeError("illegal data type for attribute: %s" % type(value).__name__)
    if isinstance(value, str):
        return value
    if isinstance(value, bytes):
        return value.decode()
    arr = np.asarray(value)
    if arr.dtype.kind in "OUS":
        if arr.ndim == 0:
            return str(arr.item())
        if all(isinstance(x, str) for x in arr.ravel().tolist()):
            return [str(x) for x in arr.ravel().tolist()]      # NC_STRING array (NETCDF4)
        raise TypeError("illegal data type for attribute: object array")
    if arr.dtype.kind not in "iuf":
        raise TypeError("illegal data type for attribute: %s" % arr.dtype)
    if arr.ndim == 0:
        return arr[()]
    arr = arr.ravel()
    return arr[0] if arr.size == 1 else arr.copy()


class _HasAttrs(object):
    def setncattr(self, name, value):
        self._check_writable()
        self._attrs()[name] = _norm_attr(value)

    def getncattr(self, name):
        try:
            return self._attrs()[name]
        except KeyError:
            raise AttributeError("NetCDF: Attribute not found: %s" % name)

    def delncattr(self, name):
        self._check_writable()
        try:
            del self._attrs()[name]
        except KeyError:
            raise AttributeError("NetCDF: Attribute not found: %s" % name)

    def ncattrs(self):
        return list(self._attrs().keys())

    def __getattr__(self, name):
        if name.startswith("__") or name.startswith("_"):
            raise AttributeError(name)
        try:
            return self._attrs()[name]
        except KeyError:
            raise AttributeError("NetCDF: Attribute not found: %s" % name)


class Dimension(object):
    def __init__(self, ds, name):
        self._ds, self._name = ds, name

    @property
    def name(self):
        return self._name

    def __len__(self):
        return self._ds._state["dims"][self._name]["len"]

    @property
    def size(self):
        return len(self)

    def isunlimited(self):
        return self._ds._state["dims"][self._name]["unlimited"]

    def __repr__(self):
        return "<stub Dimension %s size=%d%s>" % (self._name, len(self), " unlimited" if self.isunlimited() else "")


def _expand_key(key, ndim):
    # netCDF4.utils._StartCountStride: a non-tuple sequence that is not made of integers only is a sequence of
    # per-dimension indices (e.g. [slice(None)]); an ndarray or a list of integers indexes the first dimension
    if isinstance(key, list) and not all(isinstance(e, (int, np.integer, bool, np.bool_)) for e in key):
        key = tuple(key)
    if not isinstance(key, tuple):
        key = (key,)
    out = []
    seen = False
    for k in key:
        if k is Ellipsis:
            if seen:
                out.append(slice(None))
            else:
                out.extend([slice(None)] * (ndim + 1 - len(key)))
                seen = True
        else:
            out.append(k)
    if len(out) > ndim:
        raise IndexError("too many indices for variable of %d dimensions" % ndim)
    out.extend([slice(None)] * (ndim - len(out)))
    return out


class Variable(_HasAttrs):
    def __init__(self, ds, name):
        object.__setattr__(self, "_ds", ds)
        object.__setattr__(self, "_name", name)

    def _rec(self):
        return self._ds._state["vars"][self._name]

    def _attrs(self):
        return self._rec()["attrs"]

    def _check_writable(self):
        self._ds._check_writable()

    def __setattr__(self, name, value):
        if name.startswith("_"):
            object.__setattr__(self, name, value)
        else:
            self.setncattr(name, value)

    @property
    def name(self):
        return self._name

    @property
    def dimensions(self):
        return tuple(self._rec()["dims"])

    @property
    def dtype(self):
        d = self._rec()["dtype"]
        return str if d == "str" else np.dtype(d)

    @property
    def shape(self):
        return tuple(self._ds._state["dims"][d]["len"] for d in self._rec()["dims"])

    @property
    def ndim(self):
        return len(self._rec()["dims"])

    @property
    def size(self):
        return int(np.prod(self.shape)) if self.ndim else 1

    def __len__(self):
        if not self.ndim:
            raise TypeError("len() of unsized object")
        return self.shape[0]

    def __array__(self, dtype=None, copy=None):
        return np.asarray(self[...], dtype=dtype)

    # ---- data, kept consistent with the current dimension lengths
    def _sync(self):
        rec = self._rec()
        shape = self.shape
        data, mask = rec["data"], rec["mask"]
        if data.shape != shape:
            nd = np.empty(shape, dtype=data.dtype)
            nm = np.ones(shape, dtype=bool)
            if data.dtype.kind == "O":
                nd[...] = ""
            else:
                nd[...] = 0
            sl = tuple(slice(0, min(a, b)) for a, b in zip(data.shape, shape))
            nd[sl] = data[sl]
            nm[sl] = mask[sl]
            rec["data"], rec["mask"] = nd, nm
        return rec["data"], rec["mask"]

    def _indexers(self, key, for_write=False):
        """per-dimension integer index arrays (orthogonal) and the list of dropped dimensions"""
        shape = list(self.shape)
        dims = self._rec()["dims"]
        key = _expand_key(key, len(shape))
        idx, drop = [], []
        for i, k in enumerate(key):
            n = shape[i]
            unlimited = self._ds._state["dims"][dims[i]]["unlimited"]
            if isinstance(k, slice):
                if for_write and unlimited and k.stop is not None and k.stop > n and (k.step is None or k.step > 0):
                    ix = np.arange(k.start or 0, k.stop, k.step or 1)
                else:
                    ix = np.arange(*k.indices(n))
            elif isinstance(k, (int, np.integer)):
                k = int(k)
                if k < 0:
                    k += n
                if (k < 0 or k >= n) and not (for_write and unlimited and k >= 0):
                    raise IndexError("index exceeds dimension bounds")
                ix = np.array([k])
                drop.append(i)
            else:
                a = np.asarray(k)
                if a.dtype.kind == "b":
                    if a.ndim != 1 or a.shape[0] != n:
                        raise IndexError("boolean index array should have 1 dimension and match the dimension length")
                    ix = np.nonzero(a)[0]
                elif a.dtype.kind in "iu":
                    if a.ndim == 0:
                        a = a.reshape(1)
                        drop.append(i)
                    if a.ndim != 1:
                        raise IndexError("index arrays must be 1-d (orthogonal indexing)")
                    ix = np.where(a < 0, a + n, a)
                    if ix.size and (ix.min() < 0 or (ix.max() >= n and not (for_write and unlimited))):
                        raise IndexError("index exceeds dimension bounds")
                elif a.size == 0:
                    ix = np.zeros(0, dtype=int)
                else:
                    raise IndexError("only integers, slices, ellipsis and integer or boolean arrays are valid indices")
            idx.append(ix)
        return idx, drop

    def __getitem__(self, key):
        data, mask = self._sync()
        idx, drop = self._indexers(key)
        if data.ndim == 0:
            d, m = data.copy(), mask.copy()
        else:
            sel = np.ix_(*idx)
            d, m = data[sel], mask[sel]
            if drop:
                d = d.reshape([s for i, s in enumerate(d.shape) if i not in drop])
                m = m.reshape(d.shape)
        if self._rec()["dtype"] == "str":
            d = np.array(d, dtype=object)
            if d.ndim == 0:
                return d[()]
            return d
        if d.ndim == 0 and drop:
            return np.ma.masked if bool(m) else d[()]
        if _profile() == "mask_if_missing" and not m.any():
            return d
        return np.ma.MaskedArray(d, mask=m)

    def __setitem__(self, key, value):
        self._check_writable()
        rec = self._rec()
        dims = rec["dims"]
        # netCDF4 semantics: an open-ended slice along an unlimited dimension extends to the length of the data written
        key_l = _expand_key(key, len(dims))
        vshape = np.shape(value)
        nd_kept = [i for i, k in enumerate(key_l) if not isinstance(k, (int, np.integer)) and not (hasattr(k, "ndim") and getattr(k, "ndim", 1) == 0)]
        for pos_in_kept, i in enumerate(nd_kept):
            k = key_l[i]
            d = self._ds._state["dims"][dims[i]]
            if isinstance(k, slice) and k.stop is None and (k.step is None or k.step == 1) and d["unlimited"]:
                j = len(vshape) - (len(nd_kept) - pos_in_kept)
                if j >= 0:
                    start = k.start or 0
                    if start < 0:
                        start += d["len"]
                    need = start + vshape[j]
                    if vshape[j] != 1 or d["len"] == 0:
                        key_l[i] = slice(start, max(need, d["len"]) if vshape[j] != 1 else max(need, d["len"]))
        key = tuple(key_l)
        idx, drop = self._indexers(key, for_write=True)
        # grow unlimited dimensions
        for i, ix in enumerate(idx):
            d = self._ds._state["dims"][dims[i]]
            if ix.size and ix.max() >= d["len"]:
                if not d["unlimited"]:
                    raise IndexError("index exceeds dimension bounds")
                d["len"] = int(ix.max()) + 1
        data, mask = self._sync()
        if isinstance(value, np.ma.MaskedArray):
            vmask = np.ma.getmaskarray(value)
            value = value.data
        else:
            vmask = None
        if rec["dtype"] == "str":
            v = np.asarray(value, dtype=object)
            bad = [x for x in v.ravel().tolist() if not isinstance(x, str)]
            if bad:
                raise TypeError("only strings can be written to a vlen str variable, got %r" % (bad[0],))
        else:
            v = np.asarray(value)
            if v.dtype.kind in "OUS":
                raise TypeError("cannot write %s data to a variable of type %s" % (v.dtype, rec["dtype"]))
            if v.dtype.kind == "f" and np.dtype(rec["dtype"]).kind in "iu" and v.size and not np.all(np.isfinite(v)):
                raise ValueError("cannot convert float NaN to integer")
            v = v.astype(np.dtype(rec["dtype"]))
        if data.ndim == 0:
            data[...] = v.reshape(())
            mask[...] = False if vmask is None else vmask.reshape(())
            return
        selshape = [ix.size for ix in idx]
        tgt = [s for i, s in enumerate(selshape) if i not in drop]
        nsel = int(np.prod(selshape))
        if v.size == nsel:                      # netCDF4 reshapes data of the right size to the shape of the slab
            v = v.reshape(selshape)
            if vmask is not None:
                vmask = vmask.reshape(selshape)
        else:
            v = np.broadcast_to(v, tgt).reshape(selshape)
            if vmask is not None:
                vmask = np.broadcast_to(vmask, tgt).reshape(selshape)
        sel = np.ix_(*idx)
        data[sel] = v
        mask[sel] = False if vmask is None else vmask

    def __repr__(self):
        return "<stub Variable %s%s %s>" % (self._name, self.dimensions, self._rec()["dtype"])


class _VarDict(OrderedDict):
    pass


class Dataset(_HasAttrs):
    def __init__(self, filename, mode="r", clobber=True, diskless=False, persist=False, format="NETCDF4", **kwargs):
        object.__setattr__(self, "_init_done", False)
        if format not in _FORMATS:
            raise ValueError("unknown format %r" % (format,))
        if mode not in ("r", "w", "a", "r+", "as", "ws", "rs", "r+s", "x"):
            raise ValueError("mode must be one of 'r', 'w', 'a', 'r+', got %r" % (mode,))
        mode = mode.rstrip("s")
        self._filename = str(filename)
        self._mode = mode
        self._open = True
        if mode in ("w", "x"):
            if os.path.exists(self._filename) and (not clobber or mode == "x"):
                raise OSError("[Errno 13] Permission denied (file exists, clobber=False): %r" % self._filename)
            self._state = dict(format=format, dims=OrderedDict(), vars=OrderedDict(), attrs=OrderedDict())
            self._dump()
        else:
            if not os.path.exists(self._filename):
                raise FileNotFoundError("[Errno 2] No such file or directory: %r" % self._filename)
            with open(self._filename, "rb") as f:
                if f.read(len(_MAGIC)) != _MAGIC:
                    raise OSError("NetCDF: Unknown file format: %r" % self._filename)
                self._state = pickle.load(f)
        object.__setattr__(self, "_init_done", True)

    # ---- attribute plumbing
    def __setattr__(self, name, value):
        if name.startswith("_") or not self.__dict__.get("_init_done", False):
            object.__setattr__(self, name, value)
        else:
            self.setncattr(name, value)

    def _attrs(self):
        return self._state["attrs"]

    def _check_writable(self):
        if not self._open:
            raise RuntimeError("NetCDF: Not a valid ID (file is closed)")
        if self._mode == "r":
            raise RuntimeError("NetCDF: Write to read only")

    def _dump(self):
        tmp = self._filename + ".tmp~"
        with open(tmp, "wb") as f:
            f.write(_MAGIC)
            pickle.dump(self._state, f, protocol=2)
        os.replace(tmp, self._filename)

    # ---- public API
    @property
    def file_format(self):
        return self._state["format"]

    data_model = file_format

    @property
    def dimensions(self):
        return OrderedDict((k, Dimension(self, k)) for k in self._state["dims"])

    @property
    def variables(self):
        ds = self

        class _View(OrderedDict):
            def __delitem__(v, key):       # noqa: N805
                raise RuntimeError("NetCDF: cannot delete a variable from a file")
        return _View((k, Variable(ds, k)) for k in self._state["vars"])

    def createDimension(self, name, size=None):   # noqa: N802
        self._check_writable()
        if name in self._state["dims"]:
            raise RuntimeError("NetCDF: String match to name in use: %s" % name)
        unlimited = size is None or size == 0
        if unlimited and self._state["format"].startswith("NETCDF3") and any(d["unlimited"] for d in self._state["dims"].values()):
            raise RuntimeError("NetCDF: NC_UNLIMITED size already in use")
        self._state["dims"][name] = dict(len=0 if unlimited else int(size), unlimited=unlimited)
        return Dimension(self, name)

    def createVariable(self, varname, datatype, dimensions=(), fill_value=None, **kwargs):   # noqa: N802
        self._check_writable()
        if varname in self._state["vars"]:
            raise RuntimeError("NetCDF: String match to name in use: %s" % varname)
        if isinstance(dimensions, str):
            dimensions = (dimensions,)
        dimensions = tuple(getattr(d, "name", d) for d in dimensions)
        for d in dimensions:
            if d not in self._state["dims"]:
                raise ValueError("cannot find dimension %s in this group or parent groups" % d)
        fmt = self._state["format"]
        if datatype is str or datatype == "str":
            if fmt != "NETCDF4":
                raise ValueError("only NETCDF4 files support vlen str variables (format is %s)" % fmt)
            dt = "str"
        else:
            npdt = np.dtype(datatype)
            if npdt.kind in "OUS":
                if npdt.kind in "US" and npdt.itemsize in (1, 4) and npdt.kind == "S":
                    npdt = np.dtype("S1")
                raise TypeError("illegal primitive data type, must be one of dict_keys([...]), got %s" % npdt)
            if npdt.kind == "b":
                raise TypeError("illegal primitive data type: bool")
            if fmt != "NETCDF4" and npdt in (np.dtype("int64"), np.dtype("uint64"), np.dtype("uint32"), np.dtype("uint16")):
                raise RuntimeError("NetCDF: Attempting netcdf-4 operation on strict nc3 netcdf-4 file (type %s)" % npdt)
            dt = npdt.str
        shape = tuple(self._state["dims"][d]["len"] for d in dimensions)
        data = np.empty(shape, dtype=object if dt == "str" else np.dtype(dt))
        data[...] = "" if dt == "str" else 0
        mask = np.ones(shape, dtype=bool)
        if dt == "str":
            mask[...] = False
        rec = dict(dims=dimensions, dtype=dt, data=data, mask=mask, attrs=OrderedDict())
        if fill_value is not None:
            rec["attrs"]["_FillValue"] = np.asarray(fill_value)[()]
        self._state["vars"][varname] = rec
        return Variable(self, varname)

    def renameDimension(self, oldname, newname):   # noqa: N802
        self._check_writable()
        if newname in self._state["dims"]:
            raise RuntimeError("NetCDF: String match to name in use")
        self._state["dims"] = OrderedDict((newname if k == oldname else k, v) for k, v in self._state["dims"].items())
        for rec in self._state["vars"].values():
            rec["dims"] = tuple(newname if d == oldname else d for d in rec["dims"])

    def renameVariable(self, oldname, newname):   # noqa: N802
        self._check_writable()
        if newname in self._state["vars"]:
            raise RuntimeError("NetCDF: String match to name in use")
        self._state["vars"] = OrderedDict((newname if k == oldname else k, v) for k, v in self._state["vars"].items())

    def sync(self):
        if self._mode != "r" and self._open:
            self._dump()

    def close(self):
        if self._open and self._mode != "r":
            self._dump()
        self._open = False

    def isopen(self):
        return self._open

    def filepath(self):
        return self._filename

    def __enter__(self):
        return self

    def __exit__(self, *a):
        self.close()

    def __repr__(self):
        return "<stub netCDF4.Dataset %s %s dims=%s vars=%s>" % (self._filename, self._state["format"], list(self._state["dims"]), list(self._state["vars"]))


def default_fillvals():
    return {}
