"""Concretisation (gamma) and projection (project) between the abstract arrays of
spec/Arrays.tla and real dimarray objects.

Labels: an abstract label is an integer h; `LabelCodec(kind)` maps it to
  kind 'i' -> int h            kind 'f' -> float h*0.5        kind 's' -> 'k%04d' % (h+5000)
(all order preserving; numeric ones distance preserving up to the factor the
codec also applies to tolerances).  In 'mixed' mode (C04/C06, int and float
axes in one scenario) h stands for the number h/2 and kind 'i' requires h even.

Cells: identifier v >= 0 <-> value; -1 <-> NaN.  Values are made non-integral
for float arrays (v + 0.25) so that a truncation would be visible.
"""
import math
import os
import sys

import numpy as np

_REPO = os.environ.get("VERIF_REPO", "/repo")
if _REPO not in sys.path:
    sys.path.insert(0, _REPO)
# netCDF4 is absent from the sandbox: a documented stand-in (harness/ncstub) is put on the path for dimarray.io.nc
_NCSTUB = os.path.join(os.path.dirname(os.path.abspath(__file__)), "ncstub")
try:
    import netCDF4 as _real_nc  # noqa: F401
except ImportError:
    if _NCSTUB not in sys.path:
        sys.path.insert(0, _NCSTUB)
import warnings
warnings.filterwarnings("ignore")
import dimarray as da  # noqa: E402
from dimarray import DimArray, Dataset, Axis  # noqa: E402

assert os.path.realpath(os.path.dirname(os.path.dirname(da.__file__))) == os.path.realpath(_REPO), \
    "dimarray imported from %s, expected %s" % (da.__file__, _REPO)


class Unprojectable(Exception):
    pass


class LabelCodec(object):
    def __init__(self, mixed=False, offset=0, smin=None):
        self.mixed = mixed
        self.offset = offset      # shifts numeric labels so that a label can be 0 / negative (falsy labels)
        self.smin = smin          # str kind: this (smallest) abstract label is the empty string (falsy str label)

    def enc(self, h, kind):
        if kind in "ifu":
            h = h + self.offset
        if kind == "u":            # unsigned integer labels (the axis is stored as uint16)
            if self.mixed:
                assert h % 2 == 0
                return int(h) // 2
            return int(h)
        if kind == "i":
            if self.mixed:
                assert h % 2 == 0
                return h // 2
            return int(h)
        if kind == "f":
            return h * 0.5
        if kind == "s":
            if self.smin is not None and h == self.smin:
                return ""
            return "k%04d" % (h + 5000)
        if kind == "n":
            return None
        raise ValueError(kind)

    def tol(self, t, kind):
        if t >= 100000:
            return np.inf
        if kind == "i" and not self.mixed:
            return t
        return t * 0.5

    def dec(self, x):
        """concrete label -> (h, kind) or raise Unprojectable"""
        if x is None:
            return 0, "n"
        if isinstance(x, (str, np.str_)):
            if x == "" and self.smin is not None:
                return self.smin, "s"
            if len(x) == 5 and x[0] == "k" and x[1:].isdigit():
                return int(x[1:]) - 5000, "s"
            raise Unprojectable("label %r" % (x,))
        if isinstance(x, (bool, np.bool_)):
            raise Unprojectable("bool label")
        if isinstance(x, (int, np.integer)):
            return (2 * int(x) if self.mixed else int(x)) - self.offset, "i"
        if isinstance(x, (float, np.floating)):
            h = float(x) * 2
            if h != h or h != math.floor(h):
                raise Unprojectable("label %r" % (x,))
            return int(h) - self.offset, "f"
        raise Unprojectable("label %r of type %s" % (x, type(x)))

    def enc_seq(self, hs, kind):
        vals = [self.enc(h, kind) for h in hs]
        if kind == "u":
            return np.array(vals, dtype=np.uint16)
        if kind == "i":
            return np.array(vals, dtype=int)
        if kind == "f":
            return np.array(vals, dtype=float)
        if kind == "n":
            return np.array(vals, dtype=object)
        return np.array(vals, dtype=object) if not vals else np.array(vals)

    def dec_axis(self, values):
        """ndarray of labels -> (kind, [h..])"""
        values = np.asarray(values)
        k = values.dtype.kind
        if k in "iu":
            kind = "i"
        elif k == "f":
            kind = "f"
        elif k in "US":
            kind = "s"
        elif k == "O":
            kind = "O"
        else:
            raise Unprojectable("axis dtype %s" % values.dtype)
        hs = []
        okind = None
        for x in values.tolist():
            if isinstance(x, tuple):
                raise Unprojectable("tuple label")
            h, kk = self.dec(x)
            hs.append(h)
            okind = kk if okind in (None, kk) else "m"
        if kind == "O":
            kind = okind or "s"       # object axis: kind of its elements (empty: any)
        return kind, hs


# ---------------------------------------------------------------- cells
def cell_enc(v, dtype):
    if v < 0:
        return np.nan
    if dtype == "f":
        return v + 0.25
    if dtype == "i":
        return int(v)
    if dtype == "O":
        return "v%d" % v
    if dtype == "b":
        return bool(v % 2)
    raise ValueError(dtype)


def cell_dec(x):
    if isinstance(x, (str, np.str_)):
        if x[:1] == "v" and x[1:].isdigit():
            return int(x[1:])
        raise Unprojectable("cell %r" % (x,))
    if x is None:
        raise Unprojectable("cell None")
    if isinstance(x, (bool, np.bool_)):
        raise Unprojectable("bool cell")
    if isinstance(x, (float, np.floating)):
        if x != x:
            return -1
        f = float(x) - 0.25
        if f == math.floor(f) and f >= 0:
            return int(f)
        if float(x) == math.floor(x) and x >= 0:
            return int(x)             # an int id read back through a float array
        raise Unprojectable("cell %r" % (x,))
    if isinstance(x, (int, np.integer)):
        if x < 0:
            raise Unprojectable("cell %r" % (x,))
        return int(x)
    raise Unprojectable("cell %r of type %s" % (x, type(x)))


def dtype_kind(dt):
    k = np.dtype(dt).kind
    if k in "iu":
        return "i"
    if k == "f":
        return "f"
    if k == "b":
        return "b"
    if k in "OUS":
        return "O"
    return k


_NP_DTYPE = {"f": float, "i": int, "O": object, "b": bool}


# ---------------------------------------------------------------- attrs
def attrs_enc(k):
    """metadata id -> dict with one immutable and one mutable value"""
    if not k:
        return {}
    return {"tag": "m%d" % k, "mut": [k]}


def attrs_dec(d):
    d = dict(d)
    if not d:
        return 0
    if set(d) == {"tag", "mut"} and isinstance(d["mut"], list) and len(d["mut"]) == 1 \
            and d["tag"] == "m%d" % d["mut"][0]:
        return int(d["mut"][0])
    return -2


# ---------------------------------------------------------------- gamma / project
# Concretisation is one-to-many: besides the label kind and offset, an abstract array stands for objects with or without
# warmed caches (C05: "no stale cached state").  engine.py sets WARM per scenario (every other scenario of a job); a warm
# array has answered the public query is_monotonic() on every axis, which fills Axis._monotonic, before the operation runs.
WARM = False
# ... and for arrays whose data are laid out in Fortran order (what a transpose, or data read from elsewhere, look like): a
# C-ordered and an F-ordered buffer with equal elements are the same abstract array.  Set per scenario by engine.py.
FORDER = False
RELABEL = False     # axes are first built with their labels rotated, looked up once, then relabelled in place (stale caches)


# dimension names that are digit strings, none at its own position in the usual orders: a name must never be read as a position
DIGIT_NAMES = {"x": "1", "y": "0", "z": "3", "w": "2", "p": "5", "q": "4"}
_DIGIT_BACK = {v: k for k, v in DIGIT_NAMES.items()}


def digit_dims(obj, back=False):
    """rename the dimensions of a DimArray in place: x, y, .. -> '1', '0', .. (back=True: the inverse); other objects pass through"""
    if isinstance(obj, DimArray):
        table = _DIGIT_BACK if back else DIGIT_NAMES
        for ax in obj.axes:
            if ax.name in table:
                ax.name = table[ax.name]
    return obj


def warm(arr):
    for ax in arr.axes:
        if hasattr(ax, "is_monotonic"):
            ax.is_monotonic()
    return arr


def gamma(a, codec=None, kinds=None):
    """abstract array (dict) -> DimArray.  kinds overrides a['kinds'] (replay variants)."""
    codec = codec or LabelCodec()
    kinds = kinds or a["kinds"]
    shape = [len(l) for l in a["labs"]]
    dt = a["dtype"]
    vals = np.empty(len(a["cells"]), dtype=_NP_DTYPE[dt])
    for i, c in enumerate(a["cells"]):
        vals[i] = cell_enc(c, dt)
    vals = vals.reshape(shape)
    axes = []
    relabel = []
    for name, kind, labs, aat in zip(a["dims"], kinds, a["labs"], a["aattrs"]):
        final = codec.enc_seq(labs, kind)
        if RELABEL and len(labs) >= 2 and kind != "n":
            ax = Axis(np.roll(np.asarray(final), 1), name)
            relabel.append((ax, final))
        else:
            ax = Axis(final, name)
        ax.attrs.update(attrs_enc(aat))
        axes.append(ax)
    if FORDER and vals.ndim >= 2:
        vals = np.asfortranarray(vals)
    arr = DimArray(vals, axes=axes)
    arr.attrs.update(attrs_enc(a["attrs"]))
    for ax, final in relabel:
        # a history: every label is looked up once and the order is queried under the old labels, then the axis is
        # relabelled in place through Axis.__setitem__; whatever the axis remembered must not survive
        ax.is_monotonic()
        for v in ax.values.tolist():
            try:
                ax.loc(v)
            except Exception:  # noqa
                pass
        dt = ax.values.dtype
        ax[:] = final
        if ax.values.dtype != dt or ax.values.tolist() != np.asarray(final).tolist():
            raise RuntimeError("in-place relabelling did not produce the requested labels: %r vs %r" % (ax.values, final))
    if WARM:
        warm(arr)
    return arr


def project_axes(obj, codec=None):
    """dims / kinds / labels / axis attrs / attrs of a DimArray (no cells)"""
    codec = codec or LabelCodec()
    dims, kinds, labs, aattrs = [], [], [], []
    for ax in obj.axes:
        dims.append(ax.name)
        k, hs = codec.dec_axis(ax.values)
        kinds.append(k)
        labs.append(hs)
        aattrs.append(attrs_dec(ax.attrs))
    values = obj.values
    if not isinstance(values, np.ndarray):
        raise Unprojectable("values is %s" % type(values))
    wf = wellformed_defects(obj)
    if wf:
        raise Unprojectable("ill-formed DimArray: " + "; ".join(wf))
    return {"dims": dims, "kinds": kinds, "labs": labs, "aattrs": aattrs,
            "dtype": dtype_kind(values.dtype), "attrs": attrs_dec(obj.attrs), "scalar": False}


def project(obj, codec=None):
    """DimArray or scalar -> abstract array dict (scalar: 0-d, 'scalar': True)."""
    codec = codec or LabelCodec()
    if not isinstance(obj, DimArray):
        if isinstance(obj, np.ndarray):
            raise Unprojectable("bare ndarray result")
        return {"dims": [], "kinds": [], "labs": [], "aattrs": [], "cells": [cell_dec(obj)],
                "dtype": dtype_kind(np.asarray(obj).dtype), "attrs": None, "scalar": True}
    p = project_axes(obj, codec)
    p["cells"] = [cell_dec(x) for x in obj.values.ravel(order="C").tolist()]
    return p


def wellformed_defects(obj):
    """C05's structural clause on a real DimArray; list of defects (empty = well-formed)."""
    out = []
    values = obj.values
    axes = list(obj.axes)
    if len(axes) != values.ndim:
        out.append("%d axes for %d dimensions" % (len(axes), values.ndim))
        return out
    names = []
    for i, ax in enumerate(axes):
        v = np.asarray(ax.values)
        if v.ndim != 1:
            out.append("axis %d is %d-dimensional" % (i, v.ndim))
        elif v.shape[0] != values.shape[i]:
            out.append("axis %d has %d labels for %d elements" % (i, v.shape[0], values.shape[i]))
        if not isinstance(ax.name, str) or ax.name == "":
            out.append("axis %d has name %r" % (i, ax.name))
        names.append(ax.name)
    if len(set(names)) != len(names):
        out.append("duplicate dimension names %r" % (names,))
    return out


def same_kind(exp, act):
    """label kinds: 's' axes may be stored as str or object arrays"""
    return exp == act


def compare(exp, act, free_kinds=False, dtype_any=None, check_attrs=True, check_aattrs=True):
    """expected abstract array vs projected actual; returns '' or the name of the first failing clause"""
    if exp["dims"] != act["dims"]:
        return "dims: expected %s got %s" % (exp["dims"], act["dims"])
    if exp["labs"] != act["labs"]:
        return "labels: expected %s got %s" % (exp["labs"], act["labs"])
    if not free_kinds:
        for ek, ak, labs in zip(exp["kinds"], act["kinds"], act["labs"]):
            ek = "i" if ek == "u" else ek          # unsigned labels project to the integer kind
            if len(labs) and ek != ak:
                return "label kind: expected %s got %s" % (exp["kinds"], act["kinds"])
    if "cells" in exp and "cells" in act and exp["cells"] != act["cells"]:
        return "cells: expected %s got %s" % (exp["cells"], act["cells"])
    allowed = dtype_any if dtype_any is not None else [exp["dtype"]]
    if act["dtype"] not in allowed:
        return "dtype: expected %s got %s" % (allowed, act["dtype"])
    if act.get("scalar"):
        return ""
    if check_attrs and exp["attrs"] != act["attrs"]:
        return "attrs: expected %s got %s" % (exp["attrs"], act["attrs"])
    if check_aattrs and exp["aattrs"] != act["aattrs"]:
        return "axis attrs: expected %s got %s" % (exp["aattrs"], act["aattrs"])
    return ""


def snapshot(obj):
    """deep, comparison-ready snapshot of a DimArray (operand immutability, C15)"""
    return (tuple(obj.dims), tuple((ax.name, np.asarray(ax.values).dtype.str, tuple(np.asarray(ax.values).tolist()),
                                    repr(sorted(ax.attrs.items()))) for ax in obj.axes),
            obj.values.dtype.str, obj.values.shape, _cells_key(obj.values), repr(sorted(obj.attrs.items())))


def _cells_key(v):
    return tuple("nan" if (isinstance(x, float) and x != x) else x for x in v.ravel().tolist())


def second_step_probe(res):
    """history independence of a produced array (C01 / C05): indexed again with the default spellings it must behave like a
    freshly built array with the same dims, labels and values.  Returns a description of the difference or None."""
    if not isinstance(res, DimArray) or res.ndim == 0 or any(ax.size == 0 for ax in res.axes):
        return None
    fresh = DimArray(np.array(res.values), axes=[Axis(np.array(ax.values), ax.name) for ax in res.axes])
    labels = tuple(ax.values[-1] for ax in res.axes)
    probes = [("res[last labels]", lambda x: x[labels if len(labels) > 1 else labels[0]]),
              ("res.ix[-1,..]", lambda x: x.ix[tuple([-1] * x.ndim) if x.ndim > 1 else -1]),
              ("res.take(last label, axis=0)", lambda x: x.take(labels[0], axis=0))]
    for name, fn in probes:
        out = []
        for x in (res, fresh):
            try:
                r = fn(x)
                out.append(("ok", _cells_key(np.asarray(r.values if isinstance(r, DimArray) else r))))
            except Exception as e:  # noqa
                out.append(("raised", type(e).__name__))
        if out[0] != out[1]:
            return "history dependence: %s gives %s on the produced array, %s on an equal freshly built one" % (name, out[0], out[1])
    return None
