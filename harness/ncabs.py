"""Concretisation / projection for the netCDF and JSON checks (C19, C20)."""
import numpy as np

from . import absarr as A

NP_DTYPE = {"f": np.float64, "i": np.int64, "j": np.int32, "O": object}


def attrs_enc(k):
    if not k:
        return {}
    return {"tag": "m%d" % k, "num": int(k), "flt": k + 0.5, "lst": [int(k), int(k) + 1]}


def _norm(v):
    if isinstance(v, np.ndarray):
        return v.tolist()
    if isinstance(v, (np.generic,)):
        return v.item()
    if isinstance(v, tuple):
        return list(v)
    return v


def attrs_dec(d):
    d = {k: _norm(v) for k, v in dict(d).items() if k != "_FillValue"}
    if not d:
        return 0
    k = d.get("num")
    if isinstance(k, (int, float)) and not isinstance(k, bool) and d == attrs_enc(int(k)) and type(d["flt"]) is float:
        return int(k)
    return -2


def gamma(a, codec):
    """abstract array -> DimArray with the file-oriented value / metadata encodings"""
    shape = [len(l) for l in a["labs"]]
    dt = a["dtype"]
    vals = np.empty(len(a["cells"]), dtype=NP_DTYPE[dt])
    for i, c in enumerate(a["cells"]):
        vals[i] = A.cell_enc(c, "i" if dt == "j" else dt)
    axes = []
    for name, kind, labs, aat in zip(a["dims"], a["kinds"], a["labs"], a["aattrs"]):
        ax = A.Axis(codec.enc_seq(labs, kind), name)
        ax.attrs.update(attrs_enc(aat))
        axes.append(ax)
    arr = A.DimArray(vals.reshape(shape), axes=axes)
    arr.attrs.update(attrs_enc(a["attrs"]))
    return arr


def project(obj, codec):
    """DimArray (as read back) -> abstract array; dtype kind only ('j' and 'i' both project to 'i')"""
    if not isinstance(obj, A.DimArray):
        obj = A.DimArray(obj)
    wf = A.wellformed_defects(obj)
    if wf:
        raise A.Unprojectable("ill-formed: " + "; ".join(wf))
    dims, kinds, labs, aattrs = [], [], [], []
    for ax in obj.axes:
        dims.append(ax.name)
        k, hs = codec.dec_axis(ax.values)
        kinds.append(k)
        labs.append(hs)
        aattrs.append(attrs_dec(ax.attrs))
    cells = [A.cell_dec(x) for x in np.asarray(obj.values).ravel().tolist()]
    return dict(dims=dims, kinds=kinds, labs=labs, aattrs=aattrs, cells=cells, dtype=A.dtype_kind(obj.values.dtype), attrs=attrs_dec(obj.attrs))


def compare(exp, act, check_attrs=True):
    e = dict(exp, dtype="i" if exp["dtype"] == "j" else exp["dtype"])
    for f in ("dims", "labs", "cells"):
        if e[f] != act[f]:
            return "%s: expected %s got %s" % (f, e[f], act[f])
    for ek, ak, l in zip(e["kinds"], act["kinds"], act["labs"]):
        if l and ek != ak:
            return "label kind: expected %s got %s" % (e["kinds"], act["kinds"])
    if e["dtype"] != act["dtype"]:
        return "dtype kind: expected %s got %s" % (e["dtype"], act["dtype"])
    if check_attrs and e["attrs"] != act["attrs"]:
        return "variable metadata: expected id %s got %s" % (e["attrs"], act["attrs"])
    if check_attrs and e["aattrs"] != act["aattrs"]:
        return "axis metadata: expected ids %s got %s" % (e["aattrs"], act["aattrs"])
    return ""
