"""pytest plugin (loaded with -p harness.pytest_recorder, only when DIMARRAY_VERIF=1): records the public calls made by the
repository's own tests as abstract events for spec/TraceOps.tla.  No source change: entry points are wrapped at run time.

Abstraction (alpha): labels by rank within their axis (4*rank + 4; absent query labels fall between), cells by flat
position (NaN cells are -1 for reductions), metadata as 0 / 7 (equal to the operand's non-empty metadata) / -2.
Data movement is observed on a *shadow* operand whose values are the cell identifiers, run through the same
(unwrapped) function.  Calls that cannot be abstracted are counted, never guessed.
"""
import json
import os

import numpy as np

_OUT = os.environ.get("VERIF_TRACE_OUT")
_events = []
_stats = {"seen": 0, "recorded": 0, "not_abstractable": 0}
_depth = [0]
REDUCTIONS = ("sum", "prod", "mean", "var", "std", "min", "max", "ptp", "all", "any", "median")


class Skip(Exception):
    pass


def _axis_map(values):
    vals = list(np.asarray(values).tolist())
    try:
        order = sorted(set(vals))
    except TypeError:
        raise Skip("labels not sortable")
    if len(order) != len(vals) or any(isinstance(v, float) and v != v for v in vals):
        raise Skip("duplicate or NaN labels")
    return {v: 4 * r + 4 for r, v in enumerate(order)}, order


def _abs_label(v, amap, order):
    if v in amap:
        return amap[v]
    try:
        below = sum(1 for o in order if o < v)
    except TypeError:
        raise Skip("query label not comparable")
    return 4 * below + 2


def _abs_array(a, nan_as_missing):
    maps = []
    labs = []
    for ax in a.axes:
        m, order = _axis_map(ax.values)
        maps.append((m, order))
        labs.append([m[v] for v in ax.values.tolist()])
    n = a.values.size
    cells = list(range(1, n + 1))
    if nan_as_missing and a.values.dtype.kind == "f":
        flat = a.values.ravel()
        cells = [-1 if flat[k] != flat[k] else k + 1 for k in range(n)]
    dk = a.values.dtype.kind
    dtype = {"f": "f", "i": "i", "u": "i", "b": "b"}.get(dk)
    if dtype is None:
        raise Skip("dtype %s" % a.values.dtype)
    abs_ = dict(dims=list(a.dims), kinds=["i"] * a.ndim, labs=labs, aattrs=[0] * a.ndim, dtype=dtype, attrs=7 if len(a.attrs) else 0, cells=cells)
    return abs_, maps


def _abs_result(res, a, maps, computed):
    import dimarray as da
    if not isinstance(res, da.DimArray):
        val = dict(dims=[], kinds=[], labs=[], aattrs=[], dtype="f", attrs=7 if len(a.attrs) else 0, cells=[0])
        return val, [res]
    dims = list(res.dims)
    labs = []
    for ax in res.axes:
        if ax.name not in a.dims:
            raise Skip("new dimension in result")
        m, order = maps[list(a.dims).index(ax.name)]
        try:
            labs.append([m[v] for v in ax.values.tolist()])
        except KeyError:
            labs.append([-99 for _ in ax.values.tolist()])
    attrs = 0 if not len(res.attrs) else (7 if dict(res.attrs) == dict(a.attrs) else -2)
    val = dict(dims=dims, kinds=["i"] * len(dims), labs=labs, aattrs=[0] * len(dims), dtype="f", attrs=attrs,
               cells=[0] * res.values.size)
    return val, res.values.ravel().tolist()


def _jsonable(x):
    if isinstance(x, (np.floating, float)):
        x = float(x)
        return "nan" if x != x else ("inf" if x == np.inf else ("-inf" if x == -np.inf else x))
    if isinstance(x, (np.integer,)):
        return int(x)
    if isinstance(x, (np.bool_, bool)):
        return bool(x)
    return x


def _record_reduce(orig, self, func, axis, skipna, args, kwargs, result, error):
    if not isinstance(func, str) or func not in REDUCTIONS or args or kwargs:
        raise Skip("not a plain reduction")
    a_abs, maps = _abs_array(self, nan_as_missing=True)
    nd = self.ndim
    if axis is None:
        red = list(range(1, nd + 1))
    elif isinstance(axis, (tuple, list)):
        red = [self._get_axis_info(x)[0] + 1 for x in axis]
    else:
        pos = self._get_axis_info(axis)[0]
        red = [(pos % nd) + 1]
    ev = dict(op="reduce", **{"in": dict(a=a_abs, red=red, skipna=bool(skipna), func=func)})
    if error is not None:
        ev["out"] = dict(ok=False, val=[], err=type(error).__name__)
        ev["values"] = []
    else:
        val, values = _abs_result(result, self, maps, True)
        ev["out"] = dict(ok=True, val=val, err="")
        ev["values"] = [_jsonable(v) for v in values]
        ev["input_values"] = [_jsonable(v) for v in self.values.ravel().tolist()]
    return ev


def _wrap_apply_along_axis(tr):
    orig = tr.apply_along_axis

    def wrapped(self, func, axis=None, skipna=False, args=(), **kwargs):
        outer = _depth[0] == 0
        _depth[0] += 1
        result = error = None
        try:
            result = orig(self, func, axis=axis, skipna=skipna, args=args, **kwargs)
            return result
        except Exception as e:  # noqa
            error = e
            raise
        finally:
            _depth[0] -= 1
            if outer:
                _stats["seen"] += 1
                try:
                    ev = _record_reduce(orig, self, func, axis, skipna, args, kwargs, result, error)
                    ev["id"] = len(_events) + 1
                    _events.append(ev)
                    _stats["recorded"] += 1
                except Skip:
                    _stats["not_abstractable"] += 1
                except Exception:  # noqa  the recorder must never disturb the test
                    _stats["not_abstractable"] += 1
    wrapped.__doc__ = orig.__doc__
    tr.apply_along_axis = wrapped


# ---------------------------------------------------------------- reads: a[idx], take, .loc, .ix, .sel, ...
def _abs_index_label(ix, amap, order):
    if isinstance(ix, slice):
        o = lambda v: [] if v is None else [_abs_label(v, amap, order)]
        if ix.step is not None and not isinstance(ix.step, (int, np.integer)):
            raise Skip("slice step")
        return dict(k="all", v=0, l=[], m=[], lo=[], hi=[], st=[]) if ix == slice(None) else \
            dict(k="sl", v=0, l=[], m=[], lo=o(ix.start), hi=o(ix.stop), st=[] if ix.step is None else [int(ix.step)])
    if np.isscalar(ix):
        return dict(k="sc", v=_abs_label(ix, amap, order), l=[], m=[], lo=[], hi=[], st=[])
    arr = np.asarray(ix)
    if arr.ndim != 1:
        raise Skip("index array ndim")
    if arr.dtype.kind == "b":
        return dict(k="mk", v=0, l=[], m=[bool(x) for x in arr.tolist()], lo=[], hi=[], st=[])
    return dict(k="li", v=0, l=[_abs_label(v, amap, order) for v in arr.tolist()], m=[], lo=[], hi=[], st=[])


def _abs_index_pos(ix):
    if isinstance(ix, slice):
        o = lambda v: [] if v is None else [int(v)]
        return dict(k="all", v=0, l=[], m=[], lo=[], hi=[], st=[]) if ix == slice(None) else \
            dict(k="sl", v=0, l=[], m=[], lo=o(ix.start), hi=o(ix.stop), st=o(ix.step))
    if np.isscalar(ix):
        if not isinstance(ix, (int, np.integer)):
            raise Skip("non-integer position")
        return dict(k="sc", v=int(ix), l=[], m=[], lo=[], hi=[], st=[])
    arr = np.asarray(ix)
    if arr.ndim != 1:
        raise Skip("index array ndim")
    if arr.dtype.kind == "b":
        return dict(k="mk", v=0, l=[], m=[bool(x) for x in arr.tolist()], lo=[], hi=[], st=[])
    if arr.dtype.kind not in "iu" and arr.size:
        raise Skip("non-integer positions")
    return dict(k="li", v=0, l=[int(v) for v in arr.tolist()], m=[], lo=[], hi=[], st=[])


def _record_take(orig, self, indices, kw, result, error):
    import dimarray as da
    from dimarray.core.indexing import expanded_indexer
    from dimarray.config import get_option
    if type(self) is not da.DimArray:
        raise Skip("not an in-memory DimArray")
    if kw.get("broadcast") or kw.get("broadcast_arrays") or kw.get("keepdims") or kw.get("tol") is not None or getattr(self, "_tol", None) is not None:
        raise Skip("option outside the modelled call")
    if self._is_boolean_index_nd(indices):
        raise Skip("N-d boolean index")
    axis = kw.get("axis", 0)
    mode = kw.get("indexing") or getattr(self, "_indexing", None) or get_option("indexing.by")
    dims = list(self.dims)
    if indices is None:
        indices = ()
    if axis not in (0, None):
        indices = {axis: indices}
    if isinstance(indices, dict):
        d2 = {}
        for k, v in indices.items():
            d2[k if isinstance(k, str) else dims[k]] = v
        if any(k not in dims for k in d2):
            raise Skip("unknown dimension")
        indices = tuple(d2.get(d, slice(None)) for d in dims)
    elif hasattr(indices, "dims") and not isinstance(indices, da.DimArray):
        raise Skip("Axes index")
    indices = expanded_indexer(indices, self.ndim)
    a_abs, maps = _abs_array(self, nan_as_missing=False)
    a_abs["kinds"] = ["i" if ax.values.dtype.kind in "iuf" else "s" for ax in self.axes]
    idxs = []
    for ix, (amap, order) in zip(indices, maps):
        idxs.append(_abs_index_label(ix, amap, order) if mode != "position" else _abs_index_pos(ix))
    ev = dict(op="take", **{"in": dict(a=a_abs, idxs=idxs, mode="position" if mode == "position" else "label", tol=[])})
    if error is not None:
        ev["out"] = dict(ok=False, val=[], err=type(error).__name__)
        return ev
    # data movement observed on a shadow operand holding the cell identifiers
    shadow = da.DimArray(np.arange(1, self.values.size + 1, dtype=float).reshape(self.shape), axes=[ax.copy() for ax in self.axes])
    shadow.attrs.update(self.attrs)
    kw2 = dict(kw)
    sres = orig(shadow, indices, **{k: v for k, v in kw2.items() if k != "axis"})
    if isinstance(sres, da.DimArray) != isinstance(result, da.DimArray):
        raise Skip("shadow result of another type")
    val, _ = _abs_result(result, self, maps, False)
    val["kinds"] = [a_abs["kinds"][dims.index(d)] for d in val["dims"]]
    val["cells"] = [int(x) for x in (sres.values.ravel().tolist() if isinstance(sres, da.DimArray) else [sres])]
    val["dtype"] = a_abs["dtype"]
    if isinstance(result, da.DimArray):
        real = result.values.ravel()
        src = self.values.ravel()
        for pos, c in enumerate(val["cells"]):
            x, y = real[pos], src[c - 1]
            if not (x == y or (x != x and y != y)):
                raise Skip("shadow and real results disagree")       # the call did not move data the way its shadow did
    ev["out"] = dict(ok=True, val=val, err="")
    return ev


def _wrap_getitem(bases):
    cls = bases.AbstractDimArray
    orig = cls._getitem

    def wrapped(self, indices=None, **kw):
        outer = _depth[0] == 0
        _depth[0] += 1
        result = error = None
        try:
            result = orig(self, indices, **kw)
            return result
        except Exception as e:  # noqa
            error = e
            raise
        finally:
            _depth[0] -= 1
            if outer:
                _stats["seen"] += 1
                try:
                    _depth[0] += 1
                    try:
                        ev = _record_take(orig, self, indices, kw, result, error)
                    finally:
                        _depth[0] -= 1
                    ev["id"] = len(_events) + 1
                    _events.append(ev)
                    _stats["recorded"] += 1
                except Skip:
                    _stats["not_abstractable"] += 1
                except Exception:  # noqa
                    _stats["not_abstractable"] += 1
    cls._getitem = wrapped
    cls.__getitem__ = wrapped


# ---------------------------------------------------------------- rearrangements and reindexing (C10, C07)
def _struct_result(res, a, maps, extra, a_dtype):
    """abstract result of a data-moving call: labels through the operand's per-dimension maps (extra: maps of new dimensions)"""
    import dimarray as da
    if not isinstance(res, da.DimArray):
        raise Skip("result is not a DimArray")
    dims = list(res.dims)
    labs, kinds = [], []
    for ax in res.axes:
        if ax.name in extra:
            m = extra[ax.name]
            if m is None:                          # the dummy axis of newaxis: a single label None
                if ax.values.tolist() != [None]:
                    labs.append([-99] * ax.size)
                else:
                    labs.append([0])
                kinds.append("n")
                continue
        elif ax.name in a.dims:
            m, _ = maps[list(a.dims).index(ax.name)]
        else:
            raise Skip("new dimension in result")
        kinds.append("i")
        out = []
        for v in ax.values.tolist():
            try:
                out.append(m[v] if v in m else -99)
            except TypeError:
                out.append(-99)
        labs.append(out)
    attrs = 0 if not len(res.attrs) else (7 if dict(res.attrs) == dict(a.attrs) else -2)
    dk = {"f": "f", "i": "i", "u": "i", "b": "b"}.get(res.values.dtype.kind)
    if dk is None:
        raise Skip("dtype %s" % res.values.dtype)
    return dict(dims=dims, kinds=kinds, labs=labs, aattrs=[0] * len(dims), dtype=dk, attrs=attrs, cells=[0] * res.values.size)


def _shadow_cells(orig, self, args, kw, result):
    """the same call on an operand whose values are the cell identifiers; checks that the real call moved data the same way"""
    import dimarray as da
    shadow = da.DimArray(np.arange(1, self.values.size + 1, dtype=float).reshape(self.shape), axes=[ax.copy() for ax in self.axes])
    shadow.attrs.update(self.attrs)
    sres = orig(shadow, *args, **kw)
    if not isinstance(sres, da.DimArray) or sres.shape != result.shape:
        raise Skip("shadow result of another shape")
    cells = [(-1 if x != x else int(x)) for x in sres.values.ravel().tolist()]
    real = result.values.ravel()
    src = self.values.ravel()
    for pos, c in enumerate(cells):
        x = real[pos]
        if c == -1:
            if x == x:
                raise Skip("shadow and real results disagree")
            continue
        y = src[c - 1]
        if not (x == y or (x != x and y != y)):
            raise Skip("shadow and real results disagree")
    return cells


def _pos_of(self, axis):
    nd = self.ndim
    if isinstance(axis, str):
        if axis not in self.dims:
            raise Skip("unknown dimension")
        return list(self.dims).index(axis)
    if isinstance(axis, (int, np.integer)) and not isinstance(axis, bool) and -nd <= axis < nd:
        return int(axis) % nd
    raise Skip("axis argument")


def _record_struct(name, orig, self, args, kw, result, error):
    import dimarray as da
    if type(self) is not da.DimArray:
        raise Skip("not an in-memory DimArray")
    if self.values.dtype.kind not in "fiub":
        raise Skip("dtype")
    a_abs, maps = _abs_array(self, nan_as_missing=False)
    nd = self.ndim
    extra = {}
    if name == "transpose":
        if kw:
            raise Skip("keywords")
        dims = args
        if len(dims) == 1 and isinstance(dims[0], (list, tuple)):
            dims = tuple(dims[0])
        perm = list(range(nd, 0, -1)) if len(dims) == 0 else [_pos_of(self, d) + 1 for d in dims]
        if sorted(perm) != list(range(1, nd + 1)):
            raise Skip("not a permutation")
        inp = dict(a=a_abs, perm=perm)
    elif name == "swapaxes":
        b = dict(zip(("axis1", "axis2"), args))
        b.update(kw)
        if set(b) != {"axis1", "axis2"}:
            raise Skip("arguments")
        inp = dict(a=a_abs, i=_pos_of(self, b["axis1"]) + 1, j=_pos_of(self, b["axis2"]) + 1)
    elif name == "squeeze":
        b = dict(zip(("axis",), args))
        b.update(kw)
        if set(b) - {"axis"}:
            raise Skip("arguments")
        w = 0
        if b.get("axis") is not None:
            w = _pos_of(self, b["axis"]) + 1
            if self.shape[w - 1] != 1:
                raise Skip("squeeze of a non-singleton axis")
        inp = dict(a=a_abs, i=w)
    elif name == "newaxis":
        b = dict(zip(("name", "values", "pos"), args))
        b.update(kw)
        if set(b) - {"name", "values", "pos"} or not isinstance(b.get("name"), str) or b["name"] in self.dims:
            raise Skip("arguments")
        pos = b.get("pos", 0)
        if type(pos) is not int or not (-1 <= pos <= nd):
            raise Skip("pos")
        if pos == -1:
            pos = nd
        vals = []
        extra[b["name"]] = None
        if b.get("values") is not None:
            m, order = _axis_map(np.asarray(b["values"]))
            vals = [m[v] for v in np.asarray(b["values"]).tolist()]
            extra[b["name"]] = m
        inp = dict(a=a_abs, name=b["name"], i=pos, vals=vals)
    elif name == "reindex":
        b = dict(zip(("values", "axis", "fill_value", "raise_error", "method"), args))
        b.update(kw)
        if set(b) - {"values", "axis", "fill_value", "raise_error", "method"} or "values" not in b:
            raise Skip("arguments")
        fv = b.get("fill_value", np.nan)
        if not (isinstance(fv, float) and fv != fv):
            raise Skip("fill value")
        method = b.get("method")
        if method not in (None, "left", "right"):
            raise Skip("method")
        d = _pos_of(self, b.get("axis", 0))
        if isinstance(b["values"], (da.DimArray, da.Dataset)) or hasattr(b["values"], "dims"):
            raise Skip("values argument")
        vals = b["values"].values if isinstance(b["values"], da.Axis) else np.asarray(b["values"])
        if vals.ndim != 1:
            raise Skip("values argument")
        amap, order = maps[d]
        if method is not None and self.axes[d].values.dtype.kind not in "iuf":
            raise Skip("method on non-numeric labels")
        new = [_abs_label(v, amap, order) for v in vals.tolist()]
        # the result axis carries the *new* labels: absent ones map through their in-between code
        m2 = dict(amap)
        for v, code in zip(vals.tolist(), new):
            if v in m2 and m2[v] != code:
                raise Skip("label coding")
            m2[v] = code
        maps = list(maps)
        maps[d] = (m2, order)
        name = "reindex"
        inp = dict(a=a_abs, d=d + 1, new=new, fill=-1, fkind="f", method=method or "none", **{"raise": bool(b.get("raise_error", False))})
    else:
        raise Skip("operation")
    ev = dict(op={"reindex": "reindex"}.get(name, name), **{"in": inp})
    if error is not None:
        ev["out"] = dict(ok=False, val=[], err=type(error).__name__)
        return ev
    val = _struct_result(result, self, maps, extra, a_abs["dtype"])
    val["cells"] = _shadow_cells(orig, self, args, kw, result)
    ev["out"] = dict(ok=True, val=val, err="")
    return ev


def _wrap_method(cls, attr, name):
    orig = getattr(cls, attr)

    def wrapped(self, *args, **kw):
        outer = _depth[0] == 0
        _depth[0] += 1
        result = error = None
        try:
            result = orig(self, *args, **kw)
            return result
        except Exception as e:  # noqa
            error = e
            raise
        finally:
            _depth[0] -= 1
            if outer:
                _stats["seen"] += 1
                try:
                    _depth[0] += 1
                    try:
                        ev = _record_struct(name, orig, self, args, kw, result, error)
                    finally:
                        _depth[0] -= 1
                    ev["id"] = len(_events) + 1
                    _events.append(ev)
                    _stats["recorded"] += 1
                except Skip:
                    _stats["not_abstractable"] += 1
                except Exception:  # noqa  the recorder must never disturb the test
                    _stats["not_abstractable"] += 1
    wrapped.__doc__ = orig.__doc__
    wrapped.__name__ = getattr(orig, "__name__", attr)
    setattr(cls, attr, wrapped)



def pytest_configure(config):
    if os.environ.get("DIMARRAY_VERIF") != "1" or not _OUT:
        return
    what = os.environ.get("VERIF_TRACE_WHAT", "reduce")
    if "reduce" in what:
        import dimarray.core.transform as tr
        _wrap_apply_along_axis(tr)
    if "take" in what:
        import dimarray.core.bases as bases
        _wrap_getitem(bases)
    if "reshape" in what:
        import dimarray as da
        for attr in ("transpose", "swapaxes", "squeeze", "newaxis"):
            _wrap_method(da.DimArray, attr, attr)
    if "reindex" in what:
        import dimarray as da
        _wrap_method(da.DimArray, "reindex_axis", "reindex")


def pytest_sessionfinish(session, exitstatus):
    if os.environ.get("DIMARRAY_VERIF") != "1" or not _OUT:
        return
    with open(_OUT, "w") as f:
        for ev in _events:
            f.write(json.dumps(ev) + "\n")
    with open(_OUT + ".stats", "w") as f:
        json.dump(_stats, f)
