"""pytest plugin (loaded with -p harness.pytest_recorder, only when DIMARRAY_VERIF=1): records the public calls made by the
repository's own tests as abstract events for spec/TraceOps.tla.  No source change: entry points are wrapped at run time.

Abstraction (alpha): labels by rank within their axis (4*rank + 4; absent query labels fall between), cells by flat
position (NaN cells are -1 for reductions), metadata as 0 / 7 (equal to the operand's non-empty metadata) / -2.
Data movement is observed on a *shadow* operand whose values are the cell identifiers, run through the same
(unwrapped) function.  Calls that cannot be abstracted are counted, never guessed.
"""
import json
import os

import numpy as np

_OUT = os.environ.get("VERIF_TRACE_OUT")
_events = []
_stats = {"seen": 0, "recorded": 0, "not_abstractable": 0}
_depth = [0]
REDUCTIONS = ("sum", "prod", "mean", "var", "std", "min", "max", "ptp", "all", "any", "median")


class Skip(Exception):
    pass


def _axis_map(values):
    vals = list(np.asarray(values).tolist())
    try:
        order = sorted(set(vals))
    except TypeError:
        raise Skip("labels not sortable")
    if len(order) != len(vals) or any(isinstance(v, float) and v != v for v in vals):
        raise Skip("duplicate or NaN labels")
    return {v: 4 * r + 4 for r, v in enumerate(order)}, order


def _abs_label(v, amap, order):
    if v in amap:
        return amap[v]
    try:
        below = sum(1 for o in order if o < v)
    except TypeError:
        raise Skip("query label not comparable")
    return 4 * below + 2


def _abs_array(a, nan_as_missing):
    maps = []
    labs = []
    for ax in a.axes:
        m, order = _axis_map(ax.values)
        maps.append((m, order))
        labs.append([m[v] for v in ax.values.tolist()])
    n = a.values.size
    cells = list(range(1, n + 1))
    if nan_as_missing and a.values.dtype.kind == "f":
        flat = a.values.ravel()
        cells = [-1 if flat[k] != flat[k] else k + 1 for k in range(n)]
    dk = a.values.dtype.kind
    dtype = {"f": "f", "i": "i", "u": "i", "b": "b"}.get(dk)
    if dtype is None:
        raise Skip("dtype %s" % a.values.dtype)
    abs_ = dict(dims=list(a.dims), kinds=["i"] * a.ndim, labs=labs, aattrs=[0] * a.ndim, dtype=dtype, attrs=7 if len(a.attrs) else 0, cells=cells)
    return abs_, maps


def _abs_result(res, a, maps, computed):
    import dimarray as da
    if not isinstance(res, da.DimArray):
        val = dict(dims=[], kinds=[], labs=[], aattrs=[], dtype="f", attrs=7 if len(a.attrs) else 0, cells=[0])
        return val, [res]
    dims = list(res.dims)
    labs = []
    for ax in res.axes:
        if ax.name not in a.dims:
            raise Skip("new dimension in result")
        m, order = maps[list(a.dims).index(ax.name)]
        try:
            labs.append([m[v] for v in ax.values.tolist()])
        except KeyError:
            labs.append([-99 for _ in ax.values.tolist()])
    attrs = 0 if not len(res.attrs) else (7 if dict(res.attrs) == dict(a.attrs) else -2)
    val = dict(dims=dims, kinds=["i"] * len(dims), labs=labs, aattrs=[0] * len(dims), dtype="f", attrs=attrs,
               cells=[0] * res.values.size)
    return val, res.values.ravel().tolist()


def _jsonable(x):
    if isinstance(x, (np.floating, float)):
        x = float(x)
        return "nan" if x != x else ("inf" if x == np.inf else ("-inf" if x == -np.inf else x))
    if isinstance(x, (np.integer,)):
        return int(x)
    if isinstance(x, (np.bool_, bool)):
        return bool(x)
    return x


def _record_reduce(orig, self, func, axis, skipna, args, kwargs, result, error):
    if not isinstance(func, str) or func not in REDUCTIONS or args or kwargs:
        raise Skip("not a plain reduction")
    a_abs, maps = _abs_array(self, nan_as_missing=True)
    nd = self.ndim
    if axis is None:
        red = list(range(1, nd + 1))
    elif isinstance(axis, (tuple, list)):
        red = [self._get_axis_info(x)[0] + 1 for x in axis]
    else:
        pos = self._get_axis_info(axis)[0]
        red = [(pos % nd) + 1]
    ev = dict(op="reduce", **{"in": dict(a=a_abs, red=red, skipna=bool(skipna), func=func)})
    if error is not None:
        ev["out"] = dict(ok=False, val=[], err=type(error).__name__)
        ev["values"] = []
    else:
        val, values = _abs_result(result, self, maps, True)
        ev["out"] = dict(ok=True, val=val, err="")
        ev["values"] = [_jsonable(v) for v in values]
        ev["input_values"] = [_jsonable(v) for v in self.values.ravel().tolist()]
    return ev


def _wrap_apply_along_axis(tr):
    orig = tr.apply_along_axis

    def wrapped(self, func, axis=None, skipna=False, args=(), **kwargs):
        outer = _depth[0] == 0
        _depth[0] += 1
        result = error = None
        try:
            result = orig(self, func, axis=axis, skipna=skipna, args=args, **kwargs)
            return result
        except Exception as e:  # noqa
            error = e
            raise
        finally:
            _depth[0] -= 1
            if outer:
                _stats["seen"] += 1
                try:
                    ev = _record_reduce(orig, self, func, axis, skipna, args, kwargs, result, error)
                    ev["id"] = len(_events) + 1
                    _events.append(ev)
                    _stats["recorded"] += 1
                except Skip:
                    _stats["not_abstractable"] += 1
                except Exception:  # noqa  the recorder must never disturb the test
                    _stats["not_abstractable"] += 1
    wrapped.__doc__ = orig.__doc__
    tr.apply_along_axis = wrapped


def pytest_configure(config):
    if os.environ.get("DIMARRAY_VERIF") != "1" or not _OUT:
        return
    import dimarray.core.transform as tr
    _wrap_apply_along_axis(tr)


def pytest_sessionfinish(session, exitstatus):
    if os.environ.get("DIMARRAY_VERIF") != "1" or not _OUT:
        return
    with open(_OUT, "w") as f:
        for ev in _events:
            f.write(json.dumps(ev) + "\n")
    with open(_OUT + ".stats", "w") as f:
        json.dump(_stats, f)
