#!/bin/bash
# re-run tools/seedcheck.sh for every kept seed against the current /repo and /verif; one line per seed
cd /verif
for d in seeded/*/; do
  n=$(basename $d); p=${n%%_*}
  tools/seedcheck.sh $d $p quick 2>&1 | head -1 | cut -c1-170
done
