#!/bin/bash
# re-run tools/seedcheck.sh for every kept seed against the current /repo and /verif; one line per seed.
# The owning check is the one recorded in the seed's meta.json (by default the prefix of its name).  Seeds owned by different
# checks run in parallel (usage: tools/reverify_seeds.sh [jobs]); seeds of one check run one after the other (shared .work files).
cd /verif
J=${1:-3}
list=$(for d in seeded/*/; do n=$(basename $d); p=${n%%_*}; q=$(python3 -c "import json; print(json.load(open('$d/meta.json')).get('property','$p'))" 2>/dev/null || echo $p); echo "$q $n"; done | sort)
echo "$list" | awk '{print $1}' | sort -u | xargs -P $J -I{} bash -c 'echo "$0" | grep "^{} " | while read q n; do tools/seedcheck.sh seeded/$n $q quick 2>&1 | grep "^seed=\|PATCH" | head -1 | cut -c1-170; done' "$list"
