#!/bin/bash
# re-run tools/seedcheck.sh for every kept seed against the current /repo and /verif; one line per seed
# (the owning check is the one recorded in the seed's meta.json, by default the prefix of its name)
cd /verif
for d in seeded/*/; do
  n=$(basename $d); p=${n%%_*}
  q=$(python3 -c "import json,sys; print(json.load(open('$d/meta.json')).get('property','$p'))" 2>/dev/null || echo $p)
  tools/seedcheck.sh $d $q quick 2>&1 | head -1 | cut -c1-170
done
