#!/usr/bin/env python
"""tools/table.py: the table of DESIGN.md section 11.3 from the evidence files of the last runs"""
import glob
import json
import os

V = os.path.dirname(os.path.dirname(os.path.abspath(__file__)))
print("| id | tier | TLC modules | distinct states | scenarios / paths replayed | traces validated | implementation calls | known | wall s |")
print("|---|---|---|---|---|---|---|---|---|")
for f in sorted(glob.glob(os.path.join(V, "evidence", "C*.json"))):
    d = json.load(open(f))
    c = d["coverage"]
    mods = sorted(set(r["module"] for r in c.get("tlc_runs", [])))
    print("| %s | %s | %s | %d | %d | %d | %d | %s | %.0f |" % (
        d["property_id"], d["tier"], ", ".join(mods), c["states"], c["spec_to_code_scenarios"], c["code_to_spec_events"], c["impl_calls"],
        ",".join(sorted(c.get("known_finding_hits", {}))) or "-", d["wall_s"]))
