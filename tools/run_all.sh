#!/bin/bash
# tools/run_all.sh [tier] : run every registered check, one line per check (regression before committing shared changes)
TIER=${1:-quick}
cd /verif
for p in C01 C02 C03 C04 C05 C06 C07 C08 C09 C10 C11 C12 C13 C14 C15 C16 C17 C18 C19 C20; do
  /venv/bin/python run_check.py $p --tier $TIER > /tmp/runall_$p.out 2>&1; rc=$?
  echo "$p exit=$rc $(grep -c '^VIOLATION' /tmp/runall_$p.out) viol | $(tail -1 /tmp/runall_$p.out | cut -c1-150)"
done
