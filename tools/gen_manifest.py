#!/usr/bin/env python
"""Regenerate /verif/MANIFEST.json from the table below (single source of truth)."""
import json
import os
import sys

VERIF = os.path.dirname(os.path.dirname(os.path.abspath(__file__)))
sys.path.insert(0, VERIF)

PY = "/venv/bin/python"

# property -> (technique, level text, level note, design ref)
CLAIMED = {
    "C20": ("TLA+ specification of on-disk access (spec/MC_C20.tla: ReadVar = Take(Load), DiskAssign; Load = Put(Load), unlimited-dimension "
            "appends, multi-file reads as stack / concatenate) enumerated by TLC; executed through open_nc / read_nc against the netCDF4 stand-in",
            "TLC enumerates, for five stored variables (2-d float with NaN, 2-d int32 with str labels, 1-d int64, 1-d float for tolerances, 0-d), "
            "every index tuple of the per-dimension menus (scalars incl. absent, lists incl. empty and repeated, masks, slices; label and position "
            "mode; tolerances), 857 single and double on-disk assignments followed by a full read, 40 unlimited-dimension append histories (1-d and "
            "2-d, int and str labels, single slices and slabs, starting empty or filled) and 48 multi-file configurations. Reads are compared with "
            "the spec's Take and with the same index on the loaded array through 6-7 spellings and both read profiles.",
            "Trusted: TLC, NumPy, harness/ncstub/netCDF4 (API contract), write_nc (C19), stack_ds / concatenate_ds (C12, C14) as the multi-file oracle.",
            "5 (C20), 9.1"),
    "C19": ("TLA+ state machine of the netCDF file as seen through dimarray.io.nc (spec/NcStore.tla: write_nc of Datasets and arrays with modes "
            "w / w- / a / a+, open_nc setitem, two formats; invariant Consistent, action properties AppendKeeps / FailUnchanged) model-checked by TLC; "
            "every edge replayed against dimarray with a documented netCDF4 stand-in, the file read back after every step; JSON round trip per array",
            "TLC checks the machine to depth 3 (thorough 4) and emits every edge of the depth-2 (3) graph; each path is replayed under both read "
            "profiles of the stand-in (always-masked and mask-if-missing): after every write the file is read back with read_nc and compared with the "
            "machine's file content (dimension order, axis labels and kinds, variable order, dims, cells incl. NaN, dtype kind, metadata on dataset / "
            "variable / axis level), failed writes must leave the file unchanged and in-memory objects are snapshotted. from_json(to_json(a)) is "
            "checked for every pool array. In the other direction 160 (2000) randomly driven write sequences with arrays outside the pool are recorded from dimarray.io.nc and accepted by TLC only if every step is the corresponding machine action leading to the file content read back (spec/TraceNcStore.tla); corrupted controls must be rejected.",
            "Trusted: TLC, NumPy and harness/ncstub/netCDF4 (the netCDF4-python API contract, not the C library or the byte format). "
            "str data / labels are not written to NETCDF3; appended arrays agree with the file on shared labels.",
            "5 (C19), 9.1"),
    "C05": ("TLA+ state machine of a session of DimArrays in registers (spec/Workspace.tla: 16 actions incl. in-place ones and cache-populating "
            "queries; invariant AllWellFormed) model-checked by TLC; every edge of the bounded graphs and seeded random programs replayed with "
            "well-formedness observation of every constructed DimArray and the fresh-twin rule; constructor forms from spec/MC_C05.tla",
            "TLC explores the machine to depth 2 over the full menu and depth 3 (thorough 4) over the cached-state menu (history abstracted by a "
            "'warm' flag so that queries are not self-loops), and 800 (20000) random programs of depth 8 (12). Replay: DimArray.__init__ is wrapped so "
            "that every intermediate array is checked for one 1-d axis per dimension, matching lengths and distinct non-empty names; every step is "
            "also executed on freshly constructed twins of its operands and must answer identically (history independence); all registers are compared "
            "with the expected abstract state. 11 constructor forms must agree and 2 defect classes must be rejected in 3 forms.",
            "Trusted: TLC, projection/concretisation, NumPy. In-place actions only on registers alone in their alias group (sharing is neither promised nor forbidden).",
            "5 (C05)"),
    "C15": ("Action properties OperandsUnchanged and CopyIndependent of the Workspace machine (spec/Workspace.tla) model-checked by TLC and every "
            "generated program replayed with all registers compared after each step; operand-watch sweep enumerated from spec/MC_C15.tla",
            "Same exploration as C05 (every register, not only the result, is compared after every step, so a non in-place action that touches an "
            "operand or a bystander, or a copy that is not independent, shows up), plus 92 operation classes x 2 operand configurations (unsorted axes, "
            "metadata with mutable values, live transpose / squeeze / newaxis siblings sharing Axis objects) with deep snapshots before and after: "
            "indexing, arithmetic, comparisons, reductions, reshaping, reindexing, aligning with and without sort, sort_axis, interpolation, stack, "
            "concatenate, serialisation, Dataset construction and Dataset operations, copy-then-mutate in both directions.",
            "Trusted: TLC, snapshots, NumPy. Dataset.copy() is not required to deep-copy values or metadata values (only DimArray.copy() is).",
            "5 (C15)"),
    "C14": ("TLA+ specification of which variables a Dataset-wide operation affects, the resulting dims and metadata (spec/MC_C14.tla) enumerated "
            "by TLC; each scenario executed on a real Dataset and every variable compared with the DimArray operation (affected) or the original "
            "(unaffected), plus the shared-axes rule on the result",
            "TLC enumerates Datasets of 1-2 (thorough 1-3) variables from a pool of 7 dimension lists (0-d, reordered, partially overlapping) x 24 "
            "operation classes (indexing forms, five reductions, take_axis, sort_axis, reindex_axis with and without fill, interp_axis inside / outside "
            "the range, ds+ds, ds*scalar, scalar-ds, -ds, stack_ds, concatenate_ds, construction from misaligned arrays) x every dataset dimension by "
            "name and position. The per-variable oracle is the DimArray operation itself, as the property states.",
            "Trusted: TLC, NumPy, and the DimArray operations decided by C01-C18. Known finding K03 is reported.",
            "5 (C14)"),
    "C16": ("TLA+ state machine of attribute routing (spec/AttrRouting.tla: attrs dictionary, instance dictionary, dimension labels; actions "
            "set/get/del/direct-write over five name classes; action properties NeverEnters / Unreachable / PublicRoundTrip / DimIsLabels) "
            "model-checked by TLC, every edge replayed on DimArray, Dataset and Axis; propagation table (spec/MC_C16.tla) executed per operation class",
            "TLC checks the four action properties on every transition of the machine to depth 3 (thorough 4) and emits every edge with a shortest "
            "path; each path is replayed on a real DimArray, Dataset and Axis comparing results, exception class, the attrs dictionary, the instance "
            "dictionary and the axis labels after every step. 58 operation classes (indexing, reductions, transforms, reshaping, reindexing, sorting, "
            "interpolation vs arithmetic incl. unary and reflected, comparisons, stack, concatenate) are run on arrays with array-level and axis-level "
            "metadata and compared with the table; C01-C12/C17-C18 replays compare metadata as well.",
            "Trusted: TLC, NumPy. Deleting a dimension-named attrs entry through attribute syntax is left open.",
            "5 (C16)"),
    "C13": ("TLA+ state machine of the Dataset as a heap of Axis objects with identity (spec/DatasetHeap.tla, 11 actions, invariants Sharing / "
            "UniqueNames / NoLeak / DimsExact / VarsWellFormed, action property RejectUnchanged) model-checked by TLC; every edge of the bounded state "
            "graph and seeded random behaviours replayed on a real Dataset; recorded real executions validated against spec/TraceDataset.tla",
            "TLC checks the invariants on every reachable state to depth 3 (thorough 4) of the 2-key / 3-name / 31-candidate model; the edge generator "
            "(history hidden by a VIEW) emits every transition of the depth-2 graph and of the depth-3 graph over a reduced candidate pool (thorough: "
            "depth 3 / 4) with a shortest path, plus 600 (6000) random behaviours of depth 8 (12); each is replayed on dimarray.Dataset comparing keys, "
            "dims, labels, cells and axis identity (`is`) after every step, and the whole state after every rejected assignment. In the other direction "
            "400 (4000) randomly driven executions of the real Dataset (3 keys, 8 names, arbitrary labels) are recorded and TLC accepts each only if "
            "every call is an enabled action leading to the logged state; corrupted control traces must be rejected on every run.",
            "Trusted: TLC, the Dataset projection (identity via `is`), NumPy. Renaming to a name in use is not generated.",
            "5 (C13)"),
    "C18": ("TLA+ specification of interp_axis / interp_like (spec/MC_C18.tla: bracketing nodes in sorted order and exact rational weights per "
            "output cell, fills outside the range) model-checked by TLC (ExactAtNodes, AxisIsNew, OrderIndependent) and replayed",
            "TLC enumerates every node sequence over the universe in every stored order x new coordinate vectors over a half-unit grid (points below, "
            "on, between and above the nodes, in any order) x fills x issorted, at every axis position of 1-3-d arrays with int and float data, and "
            "interp_like templates sharing one or two dims; the spec gives for each output cell the two bracketing cells and num/den; the harness "
            "evaluates lo + num/den*(hi-lo) and compares (rtol 1e-12); in 1-d also against numpy.interp on the sorted fibre.",
            "Trusted: TLC, projection/concretisation, float evaluation of the lerp terms. Known finding K02 is reported.",
            "5 (C18)"),
    "C17": ("TLA+ specification of sort_axis / take_axis / compress_axis / dropna / fillna / setna (spec/MC_C17.tla) model-checked by TLC "
            "(SlicesWithLabels, SortedResult incl. idempotence, DropKeepsOrder, FillExactly) and replayed",
            "TLC enumerates 1-3-d arrays with every NaN pattern on <= 4 cells (slice / all / sparse families beyond), int and float data, every axis, "
            "every key permutation, index lists with repeats and the empty list, all masks, minvalid from 0 to the slice size, fills of int and float "
            "kind, setna by scalar / list / mask on duplicated values; theorems state that each slice moves with its label; replay with label kinds "
            "int / float / str, axis by name / position, key as callable / dict, inplace variants.",
            "Trusted: TLC, projection/concretisation, NumPy.",
            "5 (C17)"),
    "C12": ("TLA+ specification of stack / concatenate (spec/MC_C12.tla: matching by dimension name and label, refusal on mismatching secondary "
            "axes, outer alignment with align=True) model-checked by TLC (StackSound, ConcatSound, RefuseIffMismatch) and replayed",
            "TLC enumerates lists of 1-2 two-dimensional (thorough 1-3) and 1-3 one-dimensional arrays whose later members list the dims in the same "
            "or swapped order (square shapes included) with secondary labels equal / permuted / overlapping / disjoint, x stack / concatenate along "
            "each dim x align x sort; expected result or ValueError from the spec; replay with list / tuple / dict containers, int / str / default "
            "keys, axis by name / position.",
            "Trusted: TLC, projection/concretisation, NumPy. Where only the dimension order differs, both the by-name result and ValueError are accepted.",
            "5 (C12)"),
    "C11": ("TLA+ specification of flatten / unflatten / reshape on arrays with grouped axes (spec/MC_C11.tla: row-major product labels, "
            "member axes, composition for reshape) model-checked by TLC (LosslessGrouping, RoundTrip, Naming) and replayed",
            "TLC enumerates every ordered subset of dims x insert position x container kind (tuple/list/set) for 1-3-d templates (thorough 1-4-d), "
            "every reshape target built from a permutation cut into groups with an optional new singleton, and the 4-d two-group regroupings; the "
            "theorems say that every cell keeps its (member) label coordinates; result and unflatten(result) are compared with dimarray.",
            "Trusted: TLC, projection of MultiAxis objects, NumPy. Grouped labels are compared only for member axes of one kind.",
            "5 (C11)"),
    "C09": ("TLA+ specification of cumsum/cumprod (fibre prefixes), diff (n+1-cell windows, label rules per scheme, keepaxis padding) and "
            "argmin/argmax (labels of the first extremum, NaN wins) in spec/Arrays.tla, enumerated by TLC with CumKeepsAxes / DiffAxis / ArgLaw theorems; replayed",
            "TLC enumerates operated-axis lengths 1-4 (thorough 1-5) in increasing, decreasing and shuffled order, at every position of 1-3-d arrays, "
            "n in 1..3 x three schemes x keepaxis, default axis, and argmin/argmax along the axis and over the whole array for every value pattern with "
            "ties and NaNs on <= 3 cells (families beyond); the spec fixes windows, padding and resulting labels, NumPy evaluates the windows; the law "
            "a[argmin()] == min() is checked on the spec and on the code.",
            "Trusted: TLC, projection/concretisation, NumPy diff/cumsum/cumprod. Metadata of the relabelled (centered) axis is not compared.",
            "5 (C09)"),
    "C08": ("TLA+ specification of reductions (spec/Arrays.tla Reduce: ordered fibres per output coordinate + NaN policy) enumerated by TLC with "
            "DropsOnlyAxis / Partition theorems; NumPy evaluates each fibre; compared with dimarray for 11 reductions and percentile",
            "TLC enumerates shapes with sizes 1-3 up to 3-d (thorough: all, plus 4-d), every NaN pattern for <= 4 cells and a slice/all/sparse family "
            "beyond, dtypes f/i/b, every axis by name / position / negative position, every ordered tuple of dims, axis=None, both skipna settings; "
            "the spec decides which input cells form each fibre, in which order, and when the result is NaN; NumPy's 1-d function is applied to "
            "exactly those cells and compared (rtol 1e-9, NaN positions exact) together with dims, labels, metadata. The repository's own reduction tests (tests/test_transformations.py) are run under a recorder plugin and every recorded call (165) is validated: structure by TLC (spec/TraceOps.tla), values by evaluating NumPy on the fibres TLC prints.",
            "Trusted: TLC, projection/concretisation, NumPy 1-d reductions.",
            "5 (C08)"),
    "C04": ("TLA+ specification of binary operations (spec/Arrays.tla BinOp = Align + pairing of cells by label coordinate) enumerated by TLC with "
            "DimsRule / UnionRule / PairRule / Commutes theorems; pairings replayed, NumPy ufuncs evaluate the paired cells",
            "TLC enumerates all ordered pairs of label sequences on a shared dimension (equal, permuted, nested, overlapping, disjoint; every storage "
            "order) and 12 dimension configurations (private dims on either side, reordered dims, 0-d operands, 3-d); the spec decides which cell of a "
            "meets which cell of b at every label coordinate, the harness evaluates the six operators with NumPy on exactly those pairs and compares "
            "values, dtype kind, dims, labels and absence of metadata; scalar-left/right and ndarray-right operands are compared with NumPy on .values.",
            "Trusted: TLC, projection/concretisation, NumPy ufuncs. Non-empty axes; default options.",
            "5 (C04)"),
    "C06": ("TLA+ relational specification of align (spec/Arrays.tla Align / CommonAxis, Labels.tla UnionOK / InterOK) enumerated by TLC with "
            "SharedAxes / KeepsData / OthersUntouched theorems; scenarios replayed, label order compared only where the property fixes it",
            "TLC enumerates every list of 1-2 (thorough 1-3) one-dimensional arrays over all injective label sequences of the universe incl. empty, "
            "plus 2-d configurations with partially shared dims, x join x sort x axis; the theorems state the property on the spec; each scenario is "
            "replayed with int, float, str and mixed int/float labels, inputs snapshotted before and after.",
            "Trusted: TLC, projection/concretisation, NumPy. Known finding K01 (outer join with an empty axis raises) is reported, not hidden.",
            "5 (C06)"),
    "C07": ("TLA+ reference semantics of reindex_axis / reindex_like (spec/Arrays.tla Reindex, Labels.tla ReindexPos with numpy.searchsorted "
            "semantics) enumerated by TLC with MovesWithLabels / identity / RaiseIff theorems; scenarios replayed",
            "TLC enumerates every stored order of the axis x every new label sequence (incl. empty, repeated, disjoint) x fill x raise_error x "
            "method, the reindexed axis embedded at each position of 2-3-d arrays, and reindex_like templates; spec theorems are invariants; each "
            "scenario is replayed with labels as list / ndarray / Axis and kinds int, float, str and int<->float. In the other direction, randomly driven calls on arrays of up to 4 dimensions and 5 labels per axis are recorded from the real library and accepted by TLC only if spec/TraceOps.tla (the same reference operators) reproduces the logged result; corrupted control events must be rejected on every run.",
            "Trusted: TLC, projection/concretisation, NumPy. Source axes are non-empty (empty sources belong to C06).",
            "5 (C07)"),
    "C10": ("TLA+ reference semantics of transpose/T/swapaxes/rollaxis/newaxis/squeeze/repeat/broadcast/broadcast_arrays (spec/Arrays.tla) "
            "model-checked by TLC (coordinate-preservation invariants on every reachable program state) and every program replayed",
            "TLC explores every program of 1-2 rearranging operations over the template arrays (0-3 dims quick, 0-4 thorough, distinct axis lengths, "
            "singleton dims) with all permutations / axis pairs / insertion positions / broadcast targets, checking CoordPreserved, NoLoss, "
            "TransposeInverse, SqueezeNewAxis as invariants; each step of each program is replayed in dimarray with dims given by name and by position. In the other direction, randomly driven calls on arrays of up to 4 dimensions and 5 labels per axis are recorded from the real library and accepted by TLC only if spec/TraceOps.tla (the same reference operators) reproduces the logged result; corrupted control events must be rejected on every run.",
            "Trusted: TLC, projection/concretisation, NumPy. The label of a newly introduced singleton dimension that is never repeated is left open.",
            "5 (C10)"),
    "C02": ("TLA+ reference semantics of label and position slices (spec/Labels.tla LocSlice, PosSlice) enumerated exhaustively by TLC and replayed",
            "TLC enumerates every (axis, start, stop, step) combination within bounds (monotonic axes = all subsets of the universe in both directions incl. empty, shuffled, string, position slices; 1-d and embedded in 2-d), checks bounding-box / no-wrap theorems on the spec, and each expected selection is compared with the real library through every spelling. In the other direction, randomly driven calls on arrays of up to 4 dimensions and 5 labels per axis are recorded from the real library and accepted by TLC only if spec/TraceOps.tla (the same reference operators) reproduces the logged result; corrupted control events must be rejected on every run.",
            "Trusted: TLC, projection/concretisation, NumPy. Bounds: axis length 0-3 quick / 0-5 thorough, bounds from one below to one above the universe, steps None,1,2,3,-1,-2.",
            "5 (C02)"),
    "C03": ("TLA+ reference semantics of assignment (spec/Arrays.tla Put, MC_C03 PutMask) enumerated by TLC with frame / read-back theorems; scenarios replayed",
            "TLC enumerates index forms x right-hand-side shapes x inplace, the 4x4 dtype-kind table with cast, N-d boolean masks and a.values=v; frame condition and read-back are TLC invariants of the spec; every scenario is replayed through a[idx]=v, put, .ix, .iloc, .loc and compared cell by cell, dtype kind against the loss-free set. In the other direction, randomly driven calls on arrays of up to 4 dimensions and 5 labels per axis are recorded from the real library and accepted by TLC only if spec/TraceOps.tla (the same reference operators) reproduces the logged result; corrupted control events must be rejected on every run.",
            "Trusted: TLC, projection/concretisation, NumPy. Bounds: 1-2 dims, axes of 1-3 labels; repeated list indices only with scalar right-hand sides.",
            "5 (C03)"),
    "C01": ("TLA+ reference semantics (spec/Arrays.tla Take/ResolveIndex) enumerated exhaustively by TLC; every scenario "
            "replayed into dimarray through all spellings and label kinds",
            "TLC enumerates every (array, per-dimension index menu, mode, tolerance) scenario within the stated bounds, checks the "
            "spec-level theorems on each, and the expected outcome of each scenario is compared with the real library for every "
            "equivalent spelling: exhaustive within bounds on the model side, conformance-tested on the code side. In the other direction, randomly driven calls on arrays of up to 4 dimensions and 5 labels per axis are recorded from the real library and accepted by TLC only if spec/TraceOps.tla (the same reference operators) reproduces the logged result; corrupted control events must be rejected on every run.",
            "Trusted: TLC, the projection/concretisation layer, NumPy. Bounds: 0-2 dims quick / 0-3 thorough, axes of 1-3 unique labels.",
            "5 (C01)"),
}

# what was added to each check after the text above was written (seed rounds 3 and 4, DESIGN.md 11.6c / 11.6d)
COMMON = (" Every other scenario is replayed on operands with warm caches, every third on Fortran-ordered data, every fifth on axes relabelled in place (concretisation variants "
          "that the abstract arrays cannot tell apart).")
ADDENDA = {
    "C01": "Also: index lists of another kind than the axis (float labels on int axes and vice versa), empty selections with a tolerance, "
           "sel / isel / take / nloc under both values of the indexing.by option.",
    "C03": "Also: pointwise (broadcast=True) assignment, spec/Arrays.tla PutPoints / TakePoints with theorems PointsFrame, PointsReadBack, PointsArr (whole pointwise read, TakePointsArr: observations only), PointsErr "
           "(2-d and 3-d, lists / masks / scalars / slices, label and position, cast, array right-hand sides).",
    "C05": "The session starts from one of three pairs of arrays (2-d sorted + 1-d unsorted; 3-d with unsorted and decreasing axes + 2-d; 1-d decreasing + "
           "2-d with a singleton dimension). Actions added: position index forms, DimArray(a, **metadata); queries for absent labels and plain look-ups "
           "on history-laden arrays. Constructor pools with one common axis length; dims= contradicting the data shape must be rejected.",
    "C06": "Also: falsy smallest labels (0, 0.0, ''), Datasets in mixed int / float joins; single-label axes take the direction of the other inputs.",
    "C07": "Also: fill values given as narrow NumPy float scalars on integers they cannot hold.",
    "C09": "Also: bool / int8 / int32 / uint8 / float32 data compared with NumPy's cumulative result (values and dtype).",
    "C10": "Also: repetitions and new axes with a single label.",
    "C11": "Also: two and three groups with a new singleton anywhere; tuple-axis reductions of 8 operations compared with the operation on the flattened "
           "group (order-sensitive ones included); the grouped axis read by position list / slice / mask.",
    "C12": "Also: dict input with explicit keys in another order; three inputs with the mismatching one in the middle.",
    "C13": "Actions added: set_axis / relabel / rename through a variable; ContinueOn (the program goes on with the Dataset returned by copy() or an "
           "inplace=False method, every abandoned Dataset is re-projected after each step); ds[<dimension>] written into. The order of the Dataset's axes "
           "is not compared (the property promises the set).",
    "C14": "Also: keepdims, reindex_axis methods left / right, concatenate_ds of Datasets whose other axes differ (must be rejected), a decreasing axis, "
           "the metadata of every returned variable.",
    "C15": "Also: DimArray(a, **metadata) as a Workspace action; sweep classes for grouped-axis operands, to_json with non-representable metadata, "
           "Dataset operands of every ds_* class.",
    "C16": "Every path is replayed with three value maps (truthy, 0 / '', False / []); 13 more metadata-carrying operation classes; the whole "
           "reachable state space of the routing machine is explored (diameter 9), so the four action properties hold for histories of any length.",
    "C17": "Also: setna with a list of a mask and a value; arguments must be unchanged.",
    "C18": "Also: a preceding call on another grid with the same size, end labels and new coordinates (nothing may be reused).",
    "C19": "Dataset.write_nc with modes w / a / a+ (append merges dimensions, variables and metadata); files are also read by naming all variables and "
           "through open_nc(f).read(names=); JSON round trip with non-representable metadata present.",
    "C20": "Also: rotated index lists, 0-d variables (only the empty index is accepted, rejected assignments leave the file unchanged), file lists not in "
           "lexicographic order (and left unchanged), keys with an existing axis (re-indexing); thorough: a 3-d variable with float, str and int labels.",
}

# ... and after seed rounds 7b and 8 (DESIGN.md 11.6h / 11.6i)
ADDENDA2 = {
    "C01": "The caller's index objects must be unchanged; equal index arrays are passed as one object. Recorded reads of the repository's tests and docstring examples are validated too.",
    "C04": "Also: axes of 4-5 labels whose middle is shuffled (first and last in place); Python floats with fractions and NumPy scalars as scalar operands on both sides.",
    "C05": "Also: a.values = scalar / array / ill-shaped data; empty axes specifications for data that have dimensions.",
    "C06": "Datasets whose dimension order differs from their variable's.",
    "C07": "Also: falsy fill values (0, 0.0); +-inf and 1e19 among the new labels of an integer axis; recorded reindex_axis calls of the repository's tests and docstring examples validated against TraceOps.",
    "C08": "Also: by-name calls on dimensions named with digits ('1', '0', ..); a singleton between two equal lengths; recorded reductions of the repository's tests and docstring examples.",
    "C09": "Also: by-name calls on dimensions named with digits.",
    "C10": "Positions counted from the end (all, only the last, only the first); recorded transpose / swapaxes / squeeze / newaxis calls of the repository's tests and docstring examples validated against TraceOps.",
    "C11": "unflatten(g) of one grouped axis by position and by name against Unflatten(r, g).",
    "C13": "One key equals a dimension name; relabelling through a mapping onto the label 0. spec/DatasetHeapInd.tla: the invariants are inductive (every heap satisfying IndInv takes one step of Next, IndInv holds again; MaxId=2 quick, 3 thorough), hence hold for histories of any length in the model.",
    "C14": "Integer and boolean variables; interpolation onto existing nodes only. Dataset.to_array / to_dataset are modelled too (ToArray) but lie outside the statement: disagreements are printed as OBSERVATION lines, never as violations.",
    "C15": "Every keyword of set_axis(inplace=False).",
    "C16": "The propagation table is replayed with the labels of x stored shuffled, decreasing and increasing, and with metadata entries named like constructor keywords (dtype, labels).",
    "C17": "Value-range variants: valid cells replaced by infinities (fillna), integers beyond 2**24 (setna).",
    "C18": "Node lists of 4-5 labels with the ends in place and the middle shuffled; falsy fills (0, 0.0); templates carrying the array's own labels in another order.",
    "C19": "Infinities and a 0-d NaN through the three writers.",
    "C20": "Index lists with the ends in place, a repeat and a gap between.",
}

REASON_TODO = "check not built yet in this round (planned, see DESIGN.md section 10)"


def main():
    props = [json.loads(l) for l in open(os.path.join(VERIF, "properties.jsonl"))]
    checks, na = [], []
    for p in props:
        pid = p["id"]
        if pid in CLAIMED:
            tech, text, note, ref = CLAIMED[pid]
            text = text + (" " + ADDENDA[pid] if pid in ADDENDA else "") + (" " + ADDENDA2[pid] if pid in ADDENDA2 else "") + COMMON
            checks.append(dict(
                property_id=pid,
                quick_cmd="%s run_check.py %s --tier quick" % (PY, pid),
                thorough_cmd="%s run_check.py %s --tier thorough" % (PY, pid),
                evidence_file="/verif/evidence/%s.json" % pid,
                replay_cmd_template="%s run_check.py %s --replay {path}" % (PY, pid),
                engine="tlc+replay",
                level_claimed=dict(category="model_checking", text=text, design_ref="DESIGN.md section " + ref),
                level_note=note,
                technique=tech))
        else:
            na.append(dict(property_id=pid, reason=REASON_TODO))
    man = dict(
        version=1,
        setup_cmd="%s tools/setup_check.py" % PY,
        hooks=dict(guard="DIMARRAY_VERIF",
                   enable="no source hooks: the harness observes dimarray through its public API; DIMARRAY_VERIF=1 only enables the "
                          "harness-side recorder (wrappers installed from /verif at run time)",
                   baseline_off_cmd="cd /repo && /venv/bin/python -m pytest -q -p no:cacheprovider --timeout=900 --continue-on-collection-errors",
                   source_commits=[], add_only=True),
        engines=[dict(name="tlc+replay", path="/verif/run_check.py", serves_properties=sorted(CLAIMED),
                      kind_free_text="TLA+ specification (spec/*.tla) model-checked by TLC; TLC-generated scenarios and behaviours "
                                     "replayed into the implementation; recorded executions validated against the specification")],
        checks=checks,
        notes="All checks import dimarray from $VERIF_REPO (default /repo) so the working tree is what is tested. "
              "Exit 0 held / 1 VIOLATION / 2 machinery failure. known_findings.json lists recorded and fixed defects.",
        not_applicable=na)
    with open(os.path.join(VERIF, "MANIFEST.json"), "w") as f:
        json.dump(man, f, indent=1)
    print("MANIFEST.json: %d checks, %d not claimed" % (len(checks), len(na)))


if __name__ == "__main__":
    main()
