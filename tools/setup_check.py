#!/usr/bin/env python
"""Setup: nothing to build (TLA+ is interpreted, the harness is Python); verify the toolchain is present."""
import os
import shutil
import subprocess
import sys

ok = True
for tool in ("tlc", "java"):
    if shutil.which(tool) is None:
        print("missing tool: " + tool)
        ok = False
try:
    import numpy  # noqa
    sys.path.insert(0, os.environ.get("VERIF_REPO", "/repo"))
    import dimarray  # noqa
except Exception as e:
    print("import failure: %r" % e)
    ok = False
os.makedirs(os.path.join(os.path.dirname(os.path.dirname(os.path.abspath(__file__))), ".work"), exist_ok=True)
r = subprocess.run(["tla-sany", "Arrays.tla"], cwd=os.path.join(os.path.dirname(os.path.dirname(os.path.abspath(__file__))), "spec"),
                   stdout=subprocess.PIPE, stderr=subprocess.STDOUT, text=True)
if r.returncode != 0 or "error" in r.stdout.lower().replace("errors: 0", ""):
    print(r.stdout[-2000:])
    ok = False
print("setup ok" if ok else "setup FAILED")
sys.exit(0 if ok else 1)
