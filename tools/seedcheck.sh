#!/bin/bash
# usage: tools/seedcheck.sh <seed dir> [PROP] [tier]
# verifies a seeded change (demo passes clean / fails patched, repo tests unchanged) and runs the owning check against it
S=$(realpath "$1"); PROP=${2:-$(basename "$S" | cut -d_ -f1)}; TIER=${3:-quick}
D=$(mktemp -d /tmp/seedrepo.XXXXXX)
rsync -a --exclude .git --exclude '__pycache__' /repo/ "$D"/
cd "$D"
PYTHONPATH="$D" /venv/bin/python "$S/demo.py" > "$D/demo_clean.txt" 2>&1; RC_CLEAN=$?
if ! patch -p1 -s < "$S/patch.diff"; then echo "PATCH DOES NOT APPLY"; rm -rf "$D"; exit 3; fi
PYTHONPATH="$D" /venv/bin/python "$S/demo.py" > "$D/demo_mut.txt" 2>&1; RC_MUT=$?
PYTHONPATH="$D" /venv/bin/python -m pytest -q -p no:cacheprovider --timeout=900 --continue-on-collection-errors -x -q 2>/dev/null >/dev/null
TESTS=$(cd "$D" && PYTHONPATH="$D" /venv/bin/python -m pytest -q -p no:cacheprovider --timeout=900 --continue-on-collection-errors 2>&1 | tail -1)
cd /verif
VERIF_REPO="$D" /venv/bin/python run_check.py "$PROP" --tier "$TIER" > "$D/out.txt" 2>&1; RC=$?
echo "seed=$(basename $S) prop=$PROP demo_clean=$RC_CLEAN demo_mut=$RC_MUT tests=[$TESTS] check_exit=$RC"
grep -m2 -A1 '^VIOLATION' "$D/out.txt" | cut -c1-330
grep -m2 'MACHINERY' "$D/out.txt" | cut -c1-300
rm -rf "$D"
