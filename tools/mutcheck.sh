#!/bin/bash
# usage: tools/mutcheck.sh <patch.diff> <PROP> [tier]   -- run a check against a scratch copy of /repo with the patch applied
set -e
PATCH=$(realpath "$1"); PROP=$2; TIER=${3:-quick}
D=$(mktemp -d /tmp/mutrepo.XXXXXX)
rsync -a --exclude .git --exclude '__pycache__' /repo/ "$D"/
( cd "$D" && patch -p1 -s < "$PATCH" )
cd /verif
set +e
VERIF_REPO="$D" /venv/bin/python run_check.py "$PROP" --tier "$TIER" > "$D/out.txt" 2>&1
RC=$?
grep -c '^VIOLATION' "$D/out.txt" | sed 's/^/violation lines: /'
grep -m3 -A1 '^VIOLATION' "$D/out.txt" | cut -c1-400
tail -1 "$D/out.txt" | cut -c1-300
echo "exit=$RC"
rm -rf "$D"
