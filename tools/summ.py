#!/usr/bin/env python
"""compact summary of replays/<PROP>/summary_<tier>.json: violation messages grouped by their first words"""
import collections, json, re, sys
prop = sys.argv[1]; tier = sys.argv[2] if len(sys.argv) > 2 else "quick"
try:
    d = json.load(open('/verif/replays/%s/summary_%s.json' % (prop, tier)))
except FileNotFoundError:
    print("no summary (no violations)"); sys.exit()
c = collections.Counter(); ex = {}
for sig, v in d.items():
    w = re.sub(r'[\[\(].*', '', v['what'][:int(sys.argv[3]) if len(sys.argv) > 3 else 70])
    c[w] += v['count']; ex.setdefault(w, sig)
for w, n in c.most_common(15):
    print(n, '|', w, '|', ex[w][:200])
