#!/usr/bin/env python
"""tools/keep_seed.py <seed dir> <PROP> [tier]: verify a seeded change with tools/seedcheck.sh and keep it under /verif/seeded/<name>/"""
import json
import os
import re
import shutil
import subprocess
import sys

VERIF = os.path.dirname(os.path.dirname(os.path.abspath(__file__)))
src = os.path.abspath(sys.argv[1])
prop = sys.argv[2]
tier = sys.argv[3] if len(sys.argv) > 3 else "quick"
name = os.path.basename(src)
out = subprocess.run([os.path.join(VERIF, "tools/seedcheck.sh"), src, prop, tier], stdout=subprocess.PIPE, text=True).stdout
print(out)
m = re.search(r"demo_clean=(\d+) demo_mut=(\d+) tests=\[(.*?)\] check_exit=(\d+)", out)
if not m:
    sys.exit("seedcheck failed")
dc, dm, tests, rc = int(m.group(1)), int(m.group(2)), m.group(3), int(m.group(4))
if dc != 0 or dm == 0 or "229 passed" not in tests:
    sys.exit("seed not valid: demo_clean=%s demo_mut=%s tests=%s" % (dc, dm, tests))
dst = os.path.join(VERIF, "seeded", name)
os.makedirs(dst, exist_ok=True)
for f in ("patch.diff", "demo.py"):
    shutil.copy(os.path.join(src, f), os.path.join(dst, f))
try:
    meta = json.load(open(os.path.join(src, "meta.json")))
except Exception:
    meta = {}
viol = [l.strip()[:300] for l in out.splitlines() if l.strip().startswith("sig=")][:2]
meta.update(dict(property=prop, breaks_property=prop,
                 confirmed=dict(demo_exit_clean=dc, demo_exit_with_patch=dm, repo_tests_with_patch=tests,
                                check_cmd="tools/seedcheck.sh %s %s %s" % (name, prop, tier),
                                check_exit=rc, detected=(rc == 1), first_violations=viol)))
json.dump(meta, open(os.path.join(dst, "meta.json"), "w"), indent=1)
print("kept", dst, "detected" if rc == 1 else "NOT DETECTED (exit %d)" % rc)
